package checks

// C04 (a) - statement-granularity interleavings, exhaustive for small program pairs, one goroutine, deterministic:
// a statement that completes must return exactly eval(query, committed state + own earlier writes).
// C05 (a) - the same enumeration with read-modify-write programs: the committed transactions must be equivalent
// (reads seen and final state) to SOME serial order of themselves.
// The goroutine halves (b) live in c04b.go.

import (
	"fmt"
	"math/rand"
	"sort"
	"strings"
	"time"

	"github.com/ryogrid/SamehadaDB/lib/storage/access"

	"verifharness/internal/core"
	rm "verifharness/internal/refmodel"
	"verifharness/internal/sqlx"
)

var ilCols = []rm.Col{{Name: "id", K: rm.KInt}, {Name: "k", K: rm.KInt}, {Name: "v", K: rm.KStr}}

// ilStmt is one statement template instance of a program.
type ilStmt struct {
	Kind string `json:"kind"` // read-idx read-scan read-range read-k insert delete upd-k upd-key upd-reloc upd-same rmw-read rmw-append rmw-blind
	ID   int32  `json:"id,omitempty"`
	ID2  int32  `json:"id2,omitempty"`
	K    int32  `json:"k,omitempty"`
	Tok  string `json:"tok,omitempty"`
	Scan bool   `json:"scan,omitempty"` // rmw-read through the sequential-scan path (WHERE id = x OR id < 0)
}

type ilProg struct {
	Stmts []ilStmt `json:"stmts"`
	End   string   `json:"end"` // commit | abort
}

// ilState is the reference state: id -> row.
type ilState map[int32]rm.Row

func (s ilState) clone() ilState {
	n := ilState{}
	for k, v := range s {
		n[k] = v.Clone()
	}
	return n
}
func (s ilState) rows() []rm.Row {
	var ids []int
	for id := range s {
		ids = append(ids, int(id))
	}
	sort.Ints(ids)
	var out []rm.Row
	for _, id := range ids {
		out = append(out, s[int32(id)])
	}
	return out
}

// ilInitial: the table every execution starts from. wide = 20 rows of ~570 bytes (7 per heap page: ids 1-7, 8-14, 15-20),
// so that the hot rows 7, 8 and 14 are the last / first occupied slot of a page.
func ilInitial(wide bool) ilState {
	s := ilState{}
	if wide {
		for i := int32(1); i <= 20; i++ {
			v := fmt.Sprintf("init%d-", i)
			s[i] = rm.Row{rm.Int(i), rm.Int(i % 3), rm.Str(v + strings.Repeat("w", 556-len(v)))}
		}
		return s
	}
	for i := int32(1); i <= 6; i++ {
		s[i] = rm.Row{rm.Int(i), rm.Int(i % 3), rm.Str(fmt.Sprintf("init%d-------", i))}
	}
	return s
}

// sql renders the statement; reg is the value a preceding rmw-read of the same transaction returned.
func (st *ilStmt) sql(reg map[int32]string) string {
	switch st.Kind {
	case "read-idx", "rmw-read":
		if st.Scan {
			return fmt.Sprintf("SELECT id, k, v FROM t WHERE id = %d OR id < 0;", st.ID)
		}
		return fmt.Sprintf("SELECT id, k, v FROM t WHERE id = %d;", st.ID)
	case "read-scan":
		return fmt.Sprintf("SELECT id, k, v FROM t WHERE id = %d OR id < 0;", st.ID)
	case "read-range":
		return fmt.Sprintf("SELECT id, k, v FROM t WHERE id >= %d AND id <= %d;", st.ID, st.ID2)
	case "read-range-open":
		// the index range starts AT the bound, the predicate rejects the row that holds it
		return fmt.Sprintf("SELECT id, k, v FROM t WHERE id > %d AND id <= %d;", st.ID, st.ID2)
	case "read-k":
		return fmt.Sprintf("SELECT id, k, v FROM t WHERE k = %d;", st.K)
	case "read-join":
		return fmt.Sprintf("SELECT t.id, t.k, t.v FROM u, t WHERE u.k = t.k AND u.w = %d;", st.K)
	case "insert":
		return fmt.Sprintf("INSERT INTO t(id, k, v) VALUES (%d, %d, '%s');", st.ID, st.K, st.Tok)
	case "delete":
		return fmt.Sprintf("DELETE FROM t WHERE id = %d;", st.ID)
	case "upd-k":
		return fmt.Sprintf("UPDATE t SET k = %d WHERE id = %d;", st.K, st.ID)
	case "upd-key":
		return fmt.Sprintf("UPDATE t SET id = %d WHERE id = %d;", st.ID2, st.ID)
	case "upd-reloc":
		return fmt.Sprintf("UPDATE t SET v = '%s' WHERE id = %d;", st.Tok+strings.Repeat("+", 40), st.ID)
	case "upd-2col":
		// two SET columns: k gets a value (often the one it already holds), v shrinks or grows - the row moves
		return fmt.Sprintf("UPDATE t SET k = %d, v = '%s' WHERE id = %d;", st.K, st.Tok, st.ID)
	case "upd-same", "rmw-blind":
		return fmt.Sprintf("UPDATE t SET v = '%s' WHERE id = %d;", st.Tok, st.ID)
	case "rmw-append":
		return fmt.Sprintf("UPDATE t SET v = '%s' WHERE id = %d;", reg[st.ID]+","+st.Tok, st.ID)
	}
	panic("unknown statement kind " + st.Kind)
}

func (st *ilStmt) isRead() bool { return strings.HasPrefix(st.Kind, "read") || st.Kind == "rmw-read" }

// evalRead evaluates a read over state s.
func (st *ilStmt) evalRead(s ilState) []rm.Row {
	var out []rm.Row
	for _, row := range s.rows() {
		id, k := row[0].I, row[1].I
		ok := false
		switch st.Kind {
		case "read-idx", "read-scan", "rmw-read":
			ok = id == st.ID
		case "read-range":
			ok = id >= st.ID && id <= st.ID2
		case "read-range-open":
			ok = id > st.ID && id <= st.ID2
		case "read-k", "read-join":
			ok = k == st.K
		}
		if ok {
			out = append(out, row)
		}
	}
	return out
}

// apply applies a write to state s (the state a transaction sees: committed + own writes).
func (st *ilStmt) apply(s ilState, reg map[int32]string) {
	switch st.Kind {
	case "insert":
		s[st.ID] = rm.Row{rm.Int(st.ID), rm.Int(st.K), rm.Str(st.Tok)}
	case "delete":
		delete(s, st.ID)
	case "upd-k":
		if r, ok := s[st.ID]; ok {
			r = r.Clone()
			r[1] = rm.Int(st.K)
			s[st.ID] = r
		}
	case "upd-key":
		if r, ok := s[st.ID]; ok {
			r = r.Clone()
			r[0] = rm.Int(st.ID2)
			delete(s, st.ID)
			s[st.ID2] = r
		}
	case "upd-reloc":
		if r, ok := s[st.ID]; ok {
			r = r.Clone()
			r[2] = rm.Str(st.Tok + strings.Repeat("+", 40))
			s[st.ID] = r
		}
	case "upd-2col":
		if r, ok := s[st.ID]; ok {
			r = r.Clone()
			r[1] = rm.Int(st.K)
			r[2] = rm.Str(st.Tok)
			s[st.ID] = r
		}
	case "upd-same", "rmw-blind":
		if r, ok := s[st.ID]; ok {
			r = r.Clone()
			r[2] = rm.Str(st.Tok)
			s[st.ID] = r
		}
	case "rmw-append":
		if r, ok := s[st.ID]; ok {
			r = r.Clone()
			r[2] = rm.Str(reg[st.ID] + "," + st.Tok)
			s[st.ID] = r
		}
	}
}

// touched returns the ids a write statement addresses.
func (st *ilStmt) touched() []int32 {
	switch st.Kind {
	case "upd-key":
		return []int32{st.ID, st.ID2}
	}
	return []int32{st.ID}
}

// merges enumerates all interleavings of sequences with the given lengths: each result is a list of program indexes.
func merges(lens []int) [][]int {
	var out [][]int
	rem := append([]int(nil), lens...)
	var cur []int
	var rec func()
	rec = func() {
		done := true
		for i := range rem {
			if rem[i] > 0 {
				done = false
				rem[i]--
				cur = append(cur, i)
				rec()
				cur = cur[:len(cur)-1]
				rem[i]++
			}
		}
		if done {
			out = append(out, append([]int(nil), cur...))
		}
	}
	rec()
	return out
}

func genIlStmt(r *rand.Rand, tok string, rmw bool, fresh *int32) ilStmt {
	id := int32(1 + r.Intn(3)) // hot rows 1..3
	if rmw {
		switch r.Intn(11) {
		case 0, 1, 2, 3:
			return ilStmt{Kind: "rmw-read", ID: id, Scan: r.Intn(2) == 0}
		case 4, 5, 6, 7:
			return ilStmt{Kind: "rmw-append", ID: id, Tok: tok}
		case 9:
			// a range read whose excluded lower bound is a hot row (fetched through the index, rejected by the predicate): the lock an
			// earlier statement of the transaction took on that row has to survive it
			return ilStmt{Kind: "read-range-open", ID: id, ID2: id + 1 + int32(r.Intn(2))}
		case 8:
			// a delete that is rolled back (a quarter of the programs end by abort) must be invisible to every committed transaction
			return ilStmt{Kind: "delete", ID: id}
		default:
			return ilStmt{Kind: "rmw-blind", ID: id, Tok: tok + "--------"[:8-min(8, len(tok))]}
		}
	}
	switch r.Intn(13) {
	case 0, 1:
		return ilStmt{Kind: "read-idx", ID: id}
	case 2:
		return ilStmt{Kind: "read-scan", ID: id}
	case 3:
		return ilStmt{Kind: "read-range", ID: id, ID2: id + int32(r.Intn(3))}
	case 4:
		return ilStmt{Kind: "read-k", K: int32(r.Intn(3))}
	case 5:
		*fresh++
		return ilStmt{Kind: "insert", ID: *fresh, K: int32(r.Intn(3)), Tok: tok}
	case 6:
		return ilStmt{Kind: "delete", ID: id}
	case 7, 8:
		return ilStmt{Kind: "upd-k", ID: id, K: int32(r.Intn(3))}
	case 9:
		*fresh++
		return ilStmt{Kind: "upd-key", ID: id, ID2: *fresh}
	case 10:
		if r.Intn(2) == 0 {
			return ilStmt{Kind: "upd-2col", ID: id, K: id % 3, Tok: tok + strings.Repeat("~", r.Intn(30))}
		}
		return ilStmt{Kind: "upd-reloc", ID: id, Tok: tok}
	default:
		return ilStmt{Kind: "upd-same", ID: id, Tok: (tok + "-------------")[:13]}
	}
}

func init() {
	for _, id := range []string{"C04", "C05"} {
		id := id
		rule := "part (a): case = one pair (or triple) of generated transaction programs over a 6-row table t(id, k, v) (every column skip-list indexed, or id unique / B-tree indexed through the catalog API): 2 programs x 2 statements + end (and 3 x 1 + end); ALL statement-granularity merge orders are executed, each on a fresh in-memory database, one goroutine, explicit transaction handles; a statement that aborts ends its transaction. "
		if id == "C04" {
			rule += "Statements: point read through the index path / the scan path, range read, read by non-unique key, insert, delete, non-key update, key-changing update, relocating update. Oracle: a read that COMPLETES must return exactly eval(query, committed state + own earlier writes) at that moment; after all transactions ended the table must equal the model. " +
				"Part (b): goroutine histories with unique tokens (see c04b.go). Part (c): reader goroutines (id-range, k-index and full-scan reads over 40-120 rows whose ids never change) racing with writer goroutines whose committed and aborted transactions change the row length (rows move to other slots / pages): a read that completes must return every id of its range exactly once, only final values of transactions whose Commit had been called before it returned, and nothing overwritten by a transaction that committed before it was invoked (see c04c.go). Non-trivial execution = a read is executed while another open transaction has an uncommitted write on a row the read addresses (c: a committed writer of its range overlapped it); distinct by (programs, order)"
		} else {
			rule += "Programs: read-modify-write (read a row, append a unique token to what was read; blind overwrites; lost-update and write-skew shapes over 3 hot rows). Oracle: the committed transactions' observed reads and the final table must equal those of SOME serial order of the committed transactions (all permutations are simulated on the reference model). " +
				"Part (b): goroutine histories, item-level dependency graph (see c04b.go). Non-trivial execution = two committed transactions accessed a common row and at least one wrote it; distinct by (programs, order)"
		}
		core.Register(&core.Check{
			ID:          id,
			Level:       "exploration",
			Rule:        rule,
			Assumptions: []string{"aborting is always allowed (no-wait locking); the run fails as vacuous if fewer than 30 % of the reads complete", "phantoms are the documented exception: C05 programs use point reads only"},
			NumCases: func(env *core.Env) int {
				if id == "C04" {
					return ilNumA(env) + ilNumB(env) + ilNumC(env)
				}
				return ilNumA(env) + ilNumB(env)
			},
			RunCase: func(env *core.Env, idx int) *core.CaseResult {
				if idx < ilNumA(env) {
					return ilCase(env, idx, id)
				}
				if idx < ilNumA(env)+ilNumB(env) {
					return ilCaseB(env, idx, id)
				}
				return ilCaseC(env, idx)
			},
			Witness:     runSQLWitness,
			CaseTimeout: 90 * time.Second,
			Vacuity: func(env *core.Env, agg *core.Aggregate) []string {
				done, ab := agg.Stats["reads_completed"], agg.Stats["reads_aborted"]
				if done+ab > 0 && done*10 < (done+ab)*3 {
					return []string{fmt.Sprintf("only %d of %d reads completed", done, done+ab)}
				}
				return nil
			},
		})
	}
}

func ilNumA(env *core.Env) int {
	if env.Thorough() {
		return 16000
	}
	return 480
}

type ilExec struct {
	reads [][]string // per program: canonical results of its completed reads in order ("ABORT" marks)
	state string
}

func ilCase(env *core.Env, idx int, prop string) *core.CaseResult {
	r := env.Rand(idx)
	res := core.NewResult()
	rmw := prop == "C05"
	np, ns := 2, 2
	if r.Intn(4) == 0 {
		np, ns = 3, 1
	}
	if rmw && np == 2 {
		ns = 3
	}
	fresh := int32(10)
	// every fifth C04 case runs on a three-page table whose hot rows sit at page boundaries
	wide := !rmw && idx%5 == 0
	// every third C04 case: some reads by k go through a join with a second table (index join / hash join / nested loop: statistics drawn)
	withJoin := !rmw && idx%3 == 1
	joinStats := r.Intn(3) != 0
	if wide {
		fresh = 100
	}
	progs := make([]ilProg, np)
	for p := range progs {
		for s := 0; s < ns; s++ {
			st := genIlStmt(r, fmt.Sprintf("p%ds%d", p, s), rmw, &fresh)
			progs[p].Stmts = append(progs[p].Stmts, st)
		}
		progs[p].End = "commit"
		if r.Intn(4) == 0 {
			progs[p].End = "abort"
		}
		// one program in eight is directed at "own earlier writes": a write of a hot row (often row 1, the first row of the
		// heap) followed by a read of the same row through a drawn access path
		if !rmw && ns >= 2 && r.Intn(8) == 0 {
			id := int32(1)
			if r.Intn(3) == 0 {
				id = int32(1 + r.Intn(3))
			}
			tok := fmt.Sprintf("p%dw", p)
			var w ilStmt
			switch r.Intn(4) {
			case 0:
				w = ilStmt{Kind: "delete", ID: id}
			case 1:
				w = ilStmt{Kind: "upd-reloc", ID: id, Tok: tok}
			case 2:
				fresh++
				w = ilStmt{Kind: "upd-key", ID: id, ID2: fresh}
			default:
				w = ilStmt{Kind: "upd-k", ID: id, K: int32(r.Intn(3))}
			}
			twoCol := r.Intn(4) == 0
			if twoCol {
				w = ilStmt{Kind: "upd-2col", ID: id, K: id % 3, Tok: tok + strings.Repeat("~", r.Intn(30))}
			}
			rd := []ilStmt{{Kind: "read-scan", ID: id}, {Kind: "read-idx", ID: id}, {Kind: "read-range", ID: id, ID2: id + 2}, {Kind: "read-k", K: int32(r.Intn(3))}}[r.Intn(4)]
			if withJoin && r.Intn(2) == 0 {
				rd = ilStmt{Kind: "read-join", K: id % 3} // the rows sharing the written row's k, reached through the join
			}
			if twoCol && r.Intn(2) == 0 {
				rd = ilStmt{Kind: "read-k", K: id % 3} // the own, moved row through the index on the column that kept its value
			}
			progs[p].Stmts[0], progs[p].Stmts[1] = w, rd
		}
	}
	if withJoin {
		for p := range progs {
			for i := range progs[p].Stmts {
				st := &progs[p].Stmts[i]
				if st.Kind == "read-k" && r.Intn(2) == 0 {
					st.Kind = "read-join"
				} else if st.isRead() && st.Kind != "read-join" && r.Intn(4) == 0 {
					*st = ilStmt{Kind: "read-join", K: int32(r.Intn(3))}
				}
			}
		}
	}
	if wide {
		hot := []int32{7, 8, 14}
		for p := range progs {
			for i := range progs[p].Stmts {
				st := &progs[p].Stmts[i]
				if st.ID >= 1 && st.ID <= 3 {
					span := st.ID2 - st.ID
					st.ID = hot[st.ID-1]
					if st.Kind == "read-range" {
						st.ID2 = st.ID + span
					}
				}
			}
			// directed programs read ANOTHER page-boundary row (or the whole table) after their write
			if len(progs[p].Stmts) >= 2 && !progs[p].Stmts[0].isRead() && progs[p].Stmts[1].isRead() && r.Intn(2) == 0 {
				other := hot[r.Intn(3)]
				progs[p].Stmts[1] = []ilStmt{{Kind: "read-scan", ID: other}, {Kind: "read-range", ID: 1, ID2: 20}, {Kind: "read-k", K: int32(r.Intn(3))}}[r.Intn(3)]
			}
		}
	}
	// C05: make rmw-append always follow a read of the same row in the same transaction
	if rmw {
		for p := range progs {
			seen := map[int32]bool{}
			for i := range progs[p].Stmts {
				st := &progs[p].Stmts[i]
				if st.Kind == "rmw-read" {
					seen[st.ID] = true
				}
				if st.Kind == "rmw-append" && !seen[st.ID] {
					st.Kind = "rmw-read"
					st.Scan = r.Intn(2) == 0
					seen[st.ID] = true
				}
			}
		}
	}
	via := "sql"
	idxKinds := []string{"skiplist", "skiplist", "skiplist"}
	if r.Intn(3) == 0 {
		via = "api"
		idxKinds = []string{[]string{"uniq", "btree", "skiplist"}[r.Intn(3)], []string{"", "skiplist"}[r.Intn(2)], ""}
	}
	lens := make([]int, np)
	for i := range lens {
		lens[i] = len(progs[i].Stmts) + 1
	}
	orders := merges(lens)
	if !env.Thorough() && len(orders) > 40 {
		r.Shuffle(len(orders), func(i, j int) { orders[i], orders[j] = orders[j], orders[i] })
		orders = orders[:40]
	}
	caseDesc := map[string]any{"seed": env.Seed, "idx": idx, "programs": progs, "via": via, "indexes": idxKinds}
	tagsOf := func() []string {
		set := map[string]bool{"via-" + via: true}
		if wide {
			set["three-page-table"] = true
		}
		if withJoin {
			set["join-reads"] = true
		}
		for _, p := range progs {
			for _, s := range p.Stmts {
				set["stmt-"+s.Kind] = true
			}
		}
		var t []string
		for k := range set {
			t = append(t, k)
		}
		sort.Strings(t)
		return t
	}
	tags := tagsOf()
	for oi, order := range orders {
		db := sqlx.Open(fmt.Sprintf("%s/il_%d_%d", env.TmpDir, idx, oi), 1024, sqlx.Options{})
		if via == "sql" {
			db.CreateTableSQL("t", ilCols)
		} else {
			db.CreateTableAPI("t", ilCols, idxKinds)
		}
		M := ilInitial(wide)
		{
			txn := db.Begin()
			db.InsertPlan(txn, "t", M.rows())
			db.Commit(txn)
		}
		if withJoin {
			// a second, static table u(k, w) = {(0,0),(1,1),(2,2)}: "read-join" statements reach the rows of t with k = K through a join
			// (whatever join algorithm is planned, the answer is the same as that of the read by k)
			db.CreateTableSQL("u", []rm.Col{{Name: "k", K: rm.KInt}, {Name: "w", K: rm.KInt}})
			txn := db.Begin()
			db.InsertPlan(txn, "u", []rm.Row{{rm.Int(0), rm.Int(0)}, {rm.Int(1), rm.Int(1)}, {rm.Int(2), rm.Int(2)}})
			db.Commit(txn)
			if joinStats {
				db.UpdateStats()
			}
		}
		type live struct {
			h       *access.Transaction
			W       ilState // committed + own writes as this transaction sees it is M overlaid with wr
			wr      map[int32]*rm.Row
			pc      int
			dead    bool // aborted by a statement
			ended   bool
			reg     map[int32]string
			reads   []string
			wroteID map[int32]bool
			changedKey bool // completed an UPDATE that changes the value of an indexed column
		}
		txs := make([]*live, np)
		view := func(l *live) ilState {
			s := M.clone()
			for id, rp := range l.wr {
				if rp == nil {
					delete(s, id)
				} else {
					s[id] = *rp
				}
			}
			return s
		}
		orderDesc := fmt.Sprint(order)
		res.Add("executions", 1)
		if wide {
			res.Add("executions_on_the_three_page_table", 1)
		}
		failed := false
		sharedAccess := false
		keyChangeSeen := false // some statement ran while another open transaction had an uncommitted change of an indexed column
		for _, p := range order {
			if failed {
				break
			}
			l := txs[p]
			if l == nil {
				l = &live{h: db.Begin(), wr: map[int32]*rm.Row{}, reg: map[int32]string{}, wroteID: map[int32]bool{}}
				txs[p] = l
			}
			if l.ended {
				continue
			}
			if l.dead {
				l.pc++
				if l.pc > len(progs[p].Stmts) {
					l.ended = true
				}
				continue
			}
			if l.pc == len(progs[p].Stmts) {
				// end
				if progs[p].End == "commit" {
					db.Commit(l.h)
					for id, rp := range l.wr {
						if rp == nil {
							delete(M, id)
						} else {
							M[id] = *rp
						}
					}
					res.Add("commits", 1)
				} else {
					db.Abort(l.h)
					res.Add("explicit_aborts", 1)
				}
				l.ended = true
				l.pc++
				continue
			}
			st := &progs[p].Stmts[l.pc]
			l.pc++
			sql := st.sql(l.reg)
			// does another open transaction have an uncommitted write on a row this statement addresses?
			foreign := false
			for q, o := range txs {
				if q == p || o == nil || o.ended || o.dead {
					continue
				}
				if st.isRead() {
					for _, row := range st.evalRead(M) {
						if o.wroteID[row[0].I] {
							foreign = true
						}
					}
					for id := range o.wroteID {
						probe := view(o)
						if rr, ok := probe[id]; ok {
							tmp := ilState{id: rr}
							if len(st.evalRead(tmp)) > 0 {
								foreign = true
							}
						}
					}
				} else {
					for _, id := range st.touched() {
						if o.wroteID[id] {
							foreign = true
						}
					}
				}
			}
			keyChange := false
			for q, o := range txs {
				if q != p && o != nil && !o.ended && !o.dead && o.changedKey {
					keyChange = true
					keyChangeSeen = true
				}
			}
			var rr sqlx.Result
			msg, panicked := guarded(func() { rr = db.Exec(l.h, sql) })
			res.Add("statements", 1)
			d := map[string]any{"case": caseDesc, "order": orderDesc, "statement": sql, "program": p}
			if panicked {
				res.Violate("panic", tags, d, "order %s: %s (program %d) panicked: %s", orderDesc, sql, p, msg)
				failed = true
				break
			}
			if rr.Err != nil {
				res.Violate("error", tags, d, "order %s: %s failed: %v", orderDesc, sql, rr.Err)
				failed = true
				break
			}
			if rr.Aborted {
				if msg, p2 := guarded(func() { db.Abort(l.h) }); p2 {
					res.Violate("panic", tags, d, "order %s: Abort after %s panicked: %s", orderDesc, sql, msg)
					failed = true
					break
				}
				l.dead = true
				l.reads = append(l.reads, "ABORT")
				if st.isRead() {
					res.Add("reads_aborted", 1)
				} else {
					res.Add("writes_aborted", 1)
				}
				if !foreign {
					res.Add("aborts_without_foreign_uncommitted_write", 1)
				}
				continue
			}
			if foreign {
				sharedAccess = true
			}
			if st.isRead() {
				res.Add("reads_completed", 1)
				if foreign {
					res.Add("reads_completed_next_to_foreign_uncommitted_write", 1)
				}
				exp := st.evalRead(view(l))
				var got []string
				for _, row := range rr.Rows {
					got = append(got, row.Canon())
				}
				sort.Strings(got)
				l.reads = append(l.reads, strings.Join(got, ";"))
				if st.Kind == "rmw-read" {
					if len(rr.Rows) == 1 {
						l.reg[st.ID] = rr.Rows[0][2].S
					} else {
						l.reg[st.ID] = ""
					}
				}
				if prop == "C04" {
					if dd := rm.DiffMultiset(rr.Rows, exp, nil); dd != "" {
						kind := "read-" + rm.DiffKind(rr.Rows, exp, nil)
						vt := append([]string{}, tags...)
						if foreign {
							vt = append(vt, "foreign-uncommitted-write")
						}
						if keyChange || keyChangeSeen {
							vt = append(vt, "foreign-uncommitted-key-change")
						}
						res.Violate(kind, vt, d, "order %s: program %d read %q [plan %s] returned %v; committed data + own writes give %v: %s", orderDesc, p, sql, rr.Shape, rr.Rows, exp, dd)
					}
				}
			} else {
				res.Add("writes_completed", 1)
				if st.Kind == "upd-key" || (st.Kind == "upd-k" && idxKinds[1] != "") {
					l.changedKey = true
				}
				v := view(l)
				if st.Kind == "upd-2col" && idxKinds[1] != "" {
					if cur, ok := v[st.ID]; ok && cur[1].I != st.K {
						l.changedKey = true // (k really changes: the listed uncommitted-index-key-change finding applies to foreign readers)
					}
				}
				before := v.clone()
				st.apply(v, l.reg)
				// record the delta into wr
				for id := range before {
					if _, ok := v[id]; !ok {
						l.wr[id] = nil
						l.wroteID[id] = true
					}
				}
				for id, row := range v {
					if b, ok := before[id]; !ok || b.Canon() != row.Canon() {
						rc := row.Clone()
						l.wr[id] = &rc
						l.wroteID[id] = true
					}
				}
			}
		}
		if !failed {
			// finish transactions that were never scheduled to their end (cannot happen: every order contains all ends)
			var fin sqlx.Result
			if msg, panicked := guarded(func() { fin = db.ScanAllAuto("t") }); panicked || fin.Err != nil || fin.Aborted {
				res.Violate("panic", tags, map[string]any{"case": caseDesc, "order": orderDesc}, "order %s: final scan failed: %s %v %v", orderDesc, msg, fin.Err, fin.Aborted)
			} else if prop == "C04" {
				if dd := rm.DiffMultiset(fin.Rows, M.rows(), nil); dd != "" {
					ft := tags
					if keyChangeSeen {
						ft = append(append([]string{}, tags...), "foreign-uncommitted-key-change")
					}
					res.Violate("final-state", ft, map[string]any{"case": caseDesc, "order": orderDesc}, "order %s: after all transactions ended the table differs from the model: %s", orderDesc, dd)
				}
			} else {
				// C05: equivalence to some serial order of the committed transactions
				var committed []int
				for p, l := range txs {
					if l != nil && !l.dead && progs[p].End == "commit" {
						committed = append(committed, p)
					}
				}
				okSerial := false
				var tried []string
				for _, perm := range permsOf(committed) {
					S := ilInitial(wide)
					match := true
					for _, p := range perm {
						reg := map[int32]string{}
						var reads []string
						for i := range progs[p].Stmts {
							st := &progs[p].Stmts[i]
							if st.isRead() {
								rows := st.evalRead(S)
								var got []string
								for _, row := range rows {
									got = append(got, row.Canon())
								}
								sort.Strings(got)
								reads = append(reads, strings.Join(got, ";"))
								if st.Kind == "rmw-read" {
									if len(rows) == 1 {
										reg[st.ID] = rows[0][2].S
									} else {
										reg[st.ID] = ""
									}
								}
							} else {
								st.apply(S, reg)
							}
						}
						if strings.Join(reads, "|") != strings.Join(txs[p].reads, "|") {
							match = false
						}
					}
					if match && rm.DiffMultiset(fin.Rows, S.rows(), nil) == "" {
						okSerial = true
						break
					}
					tried = append(tried, fmt.Sprint(perm))
				}
				res.Add("serializability_checks", 1)
				conflictPair := false
				for i := 0; i < len(committed) && !conflictPair; i++ {
					for j := i + 1; j < len(committed) && !conflictPair; j++ {
						for _, a := range progs[committed[i]].Stmts {
							for _, b := range progs[committed[j]].Stmts {
								if a.ID == b.ID && (!a.isRead() || !b.isRead()) {
									conflictPair = true
								}
							}
						}
					}
				}
				if conflictPair {
					res.Nontrivial = true
					res.Add("nontrivial_executions", 1)
				}
				if !okSerial {
					var obs []string
					for _, p := range committed {
						obs = append(obs, fmt.Sprintf("program %d reads %v", p, txs[p].reads))
					}
					res.Violate("not-serializable", tags, map[string]any{"case": caseDesc, "order": orderDesc}, "order %s: committed programs %v are equivalent to no serial order (tried %v): %s; final table %v", orderDesc, committed, tried, strings.Join(obs, "; "), fin.Rows)
				}
			}
		}
		if prop == "C04" && sharedAccess {
			res.Nontrivial = true
			res.Add("nontrivial_executions", 1)
		}
		guarded(func() { db.S.ShutdownForTescase() })
		if len(res.Violations) >= 3 {
			break
		}
	}
	res.Key = fmt.Sprintf("%s-a-%d", prop, idx)
	if idx < 2 {
		res.Sample = map[string]any{"programs": progs, "orders_executed": len(orders), "via": via}
	}
	return res
}

func permsOf(a []int) [][]int {
	if len(a) <= 1 {
		return [][]int{append([]int(nil), a...)}
	}
	var out [][]int
	for i := range a {
		rest := append(append([]int(nil), a[:i]...), a[i+1:]...)
		for _, p := range permsOf(rest) {
			out = append(out, append([]int{a[i]}, p...))
		}
	}
	return out
}
