package checks

// C11 - join answers equal the naive nested-loop evaluation whatever plan the optimizer chooses.

import (
	"fmt"
	"math"
	"math/rand"
	"sort"
	"strings"
	"sync"
	"time"

	enginehash "github.com/ryogrid/SamehadaDB/lib/container/hash"
	"github.com/ryogrid/SamehadaDB/lib/types"

	"verifharness/internal/core"
	"verifharness/internal/gen"
	rm "verifharness/internal/refmodel"
	"verifharness/internal/sqlx"
)

func init() {
	core.Register(&core.Check{
		ID:    "C11",
		Level: "exploration",
		Rule: "case = 2-3 generated tables (0-60 rows; duplicate / missing / NULL join keys, empty tables; SQL-created = all columns indexed, API-created = mixed index presence) + generated join queries in both spellings " +
			"(FROM a JOIN b ON a.x = b.y [WHERE..], FROM a, b[, c] WHERE a.x = b.y AND ..., cross joins), qualified select lists in any order, conjunctive filters on either side; each query is executed under four statistics states " +
			"(none, fresh, fresh for one table only, stale after the table sizes were swapped). Oracle = nested-loop evaluation in the reference model (NULL never joins), multiset comparison, all states must agree. " +
			"Non-trivial query = answer non-empty and smaller than the cross product; distinct by query text + table contents hash",
		Assumptions: []string{"result order is not compared", "NULL <> x is don't-care"},
		NumCases: func(env *core.Env) int {
			if env.Thorough() {
				return 4000
			}
			return 240
		},
		RunCase:     c11Run,
		Witness:     runSQLWitness,
		CaseTimeout: 40 * time.Second,
		Vacuity: func(env *core.Env, agg *core.Aggregate) []string {
			var out []string
			shapes := strings.Join(agg.SetNames("plan_shapes"), " ")
			for _, need := range []string{"HashJoin", "IndexJoin", "NestedLoopJoin"} {
				if !strings.Contains(shapes, need) {
					out = append(out, "join algorithm never chosen in this run: "+need)
				}
			}
			return out
		},
	})
}

type c11Query struct {
	sql    string
	tables []int     // indexes into state tables, in FROM order
	joins  [][4]int  // (tableA, colA, tableB, colB) equalities
	filt   []c11Filt // filters
	xcmp   []c11XCmp // comparisons between columns of two different tables with an operator other than '='
	sel    [][2]int  // (table, col) output columns
	tags   []string
}

type c11XCmp struct {
	ta, ca, tb, cb int
	op             rm.CmpOp
}

type c11Filt struct {
	t, c int
	op   rm.CmpOp
	lit  rm.Cell
}

type c11State struct {
	env   *core.Env
	r     *rand.Rand
	res   *core.CaseResult
	db    *sqlx.DB
	tabs  []*rm.Table
	via   []string
	idx   [][]string
	n     int
	dead  bool
	memKB int
	big   bool // tables larger than the pool: joins on the first (mostly unique) column only, fewer queries
}

func (s *c11State) open() {
	s.n++
	memKB := 2048
	if s.memKB > 0 {
		memKB = s.memKB
	}
	s.db = sqlx.Open(fmt.Sprintf("%s/c11_%d", s.env.TmpDir, s.n), memKB, sqlx.Options{})
	for i, t := range s.tabs {
		if s.via[i] == "sql" {
			if err := s.db.CreateTableSQL(t.Name, t.Cols); err != nil {
				panic(err)
			}
		} else {
			s.db.CreateTableAPI(t.Name, t.Cols, s.idx[i])
		}
		if len(t.Rows) > 0 {
			txn := s.db.Begin()
			s.db.InsertPlan(txn, t.Name, t.Rows)
			s.db.Commit(txn)
		}
	}
	s.dead = false
}

func (s *c11State) eval(q *c11Query) (must, may []rm.Row) {
	var rec func(k int, cur []rm.Row)
	rec = func(k int, cur []rm.Row) {
		if k == len(q.tables) {
			v := rm.True
			for _, j := range q.joins {
				a, b := cur[j[0]][j[1]], cur[j[2]][j[3]]
				if a.Null || b.Null || rm.Compare(a, b) != 0 {
					return
				}
			}
			for _, x := range q.xcmp {
				a, b := cur[x.ta][x.ca], cur[x.tb][x.cb]
				if a.Null || b.Null {
					if x.op == rm.Ne {
						v = rm.DontCare
						continue
					}
					return
				}
				cmp := rm.Compare(a, b)
				if !map[rm.CmpOp]bool{rm.Eq: cmp == 0, rm.Ne: cmp != 0, rm.Lt: cmp < 0, rm.Le: cmp <= 0, rm.Gt: cmp > 0, rm.Ge: cmp >= 0}[x.op] {
					return
				}
			}
			for _, f := range q.filt {
				c := cur[f.t][f.c]
				if c.Null {
					if f.op == rm.Ne {
						v = rm.DontCare
						continue
					}
					return
				}
				cmp := rm.Compare(c, f.lit)
				ok := map[rm.CmpOp]bool{rm.Eq: cmp == 0, rm.Ne: cmp != 0, rm.Lt: cmp < 0, rm.Le: cmp <= 0, rm.Gt: cmp > 0, rm.Ge: cmp >= 0}[f.op]
				if !ok {
					return
				}
			}
			out := make(rm.Row, len(q.sel))
			for i, sc := range q.sel {
				out[i] = cur[sc[0]][sc[1]]
			}
			if v == rm.True {
				must = append(must, out)
			} else {
				may = append(may, out)
			}
			return
		}
		for _, row := range s.tabs[q.tables[k]].Rows {
			rec(k+1, append(cur, row))
		}
	}
	rec(0, nil)
	return
}

func (s *c11State) genQuery() *c11Query {
	r := s.r
	q := &c11Query{}
	nt := 2
	if len(s.tabs) == 3 && r.Intn(3) == 0 {
		nt = 3
	}
	perm := r.Perm(len(s.tabs))[:nt]
	q.tables = perm
	tags := map[string]bool{}
	name := func(k, c int) string { return s.tabs[q.tables[k]].Name + "." + s.tabs[q.tables[k]].Cols[c].Name }
	// join conditions: chain k-1 -> k on columns of equal kind
	cross := r.Intn(8) == 0 && !s.big
	if !cross {
		for k := 1; k < nt; k++ {
			found := false
			for tries := 0; tries < 30 && !found; tries++ {
				a := r.Intn(k)
				ca := r.Intn(len(s.tabs[q.tables[a]].Cols))
				cb := r.Intn(len(s.tabs[q.tables[k]].Cols))
				if s.big {
					ca, cb = 0, 0
				}
				if s.tabs[q.tables[a]].Cols[ca].K == s.tabs[q.tables[k]].Cols[cb].K {
					q.joins = append(q.joins, [4]int{a, ca, k, cb})
					found = true
					if s.tabs[q.tables[a]].Cols[ca].Name == s.tabs[q.tables[k]].Cols[cb].Name {
						tags["join-same-colname"] = true
					}
					if s.idx[q.tables[k]][cb] != "" || s.idx[q.tables[a]][ca] != "" {
						tags["join-col-indexed"] = true
					}
				}
			}
			if !found {
				cross = true
			}
		}
	}
	if cross {
		tags["cross-join"] = true
	}
	// filters
	nf := r.Intn(4)
	for i := 0; i < nf; i++ {
		k := r.Intn(nt)
		t := s.tabs[q.tables[k]]
		c := r.Intn(len(t.Cols))
		var lit rm.Cell
		if len(t.Rows) > 0 && r.Intn(4) != 0 {
			lit = gen.Neighbour(r, t.Rows[r.Intn(len(t.Rows))][c])
		} else {
			lit = gen.Value(r, t.Cols[c].K, false, false)
		}
		if lit.Null || !gen.LitAccepted(lit) {
			continue
		}
		q.filt = append(q.filt, c11Filt{k, c, rm.CmpOp(r.Intn(6)), lit})
		if k > 0 {
			tags["filter-on-later-table"] = true
		} else {
			tags["filter-on-first-table"] = true
		}
	}
	// one query in six compares columns of two different tables with an operator other than '='
	if r.Intn(6) == 0 && !s.big {
		for tries := 0; tries < 30; tries++ {
			ta, tb := r.Intn(nt), r.Intn(nt)
			if ta == tb {
				continue
			}
			ca, cb := r.Intn(len(s.tabs[q.tables[ta]].Cols)), r.Intn(len(s.tabs[q.tables[tb]].Cols))
			if s.tabs[q.tables[ta]].Cols[ca].K != s.tabs[q.tables[tb]].Cols[cb].K {
				continue
			}
			q.xcmp = append(q.xcmp, c11XCmp{ta, ca, tb, cb, rm.CmpOp(1 + r.Intn(5))})
			tags["cross-table-comparison"] = true
			break
		}
	}
	// select list
	star := false
	useJoinSyntax := nt == 2 && len(q.joins) == 1 && r.Intn(2) == 0
	// three tables written as a chain of JOIN ... ON clauses (each ON names the table it introduces)
	chain := nt == 3 && len(q.joins) == 2 && r.Intn(3) == 0
	if useJoinSyntax && r.Intn(4) == 0 {
		star = true
		for k := 0; k < nt; k++ {
			for c := range s.tabs[q.tables[k]].Cols {
				q.sel = append(q.sel, [2]int{k, c})
			}
		}
		tags["select-star"] = true
	} else {
		n := 1 + r.Intn(4)
		for i := 0; i < n; i++ {
			k := r.Intn(nt)
			q.sel = append(q.sel, [2]int{k, r.Intn(len(s.tabs[q.tables[k]].Cols))})
		}
	}
	var sel []string
	for _, sc := range q.sel {
		sel = append(sel, name(sc[0], sc[1]))
	}
	selStr := strings.Join(sel, ", ")
	if star {
		selStr = "*"
	}
	var conds []string
	for _, f := range q.filt {
		lit, _ := f.lit.SQLLit()
		conds = append(conds, name(f.t, f.c)+" "+f.op.SQL()+" "+lit)
	}
	for _, x := range q.xcmp {
		conds = append(conds, name(x.ta, x.ca)+" "+x.op.SQL()+" "+name(x.tb, x.cb))
	}
	if chain {
		j1, j2 := q.joins[0], q.joins[1]
		q.sql = "SELECT " + selStr + " FROM " + s.tabs[q.tables[0]].Name + " JOIN " + s.tabs[q.tables[1]].Name + " ON " + name(j1[0], j1[1]) + " = " + name(j1[2], j1[3]) +
			" JOIN " + s.tabs[q.tables[2]].Name + " ON " + name(j2[0], j2[1]) + " = " + name(j2[2], j2[3])
		if len(conds) > 0 {
			q.sql += " WHERE " + strings.Join(conds, " AND ")
		}
		tags["join-syntax-chain"] = true
	} else if useJoinSyntax {
		j := q.joins[0]
		q.sql = "SELECT " + selStr + " FROM " + s.tabs[q.tables[0]].Name + " JOIN " + s.tabs[q.tables[1]].Name + " ON " + name(j[0], j[1]) + " = " + name(j[2], j[3])
		if len(conds) > 0 {
			q.sql += " WHERE " + strings.Join(conds, " AND ")
		}
		tags["join-syntax"] = true
	} else {
		var from []string
		for k := 0; k < nt; k++ {
			from = append(from, s.tabs[q.tables[k]].Name)
		}
		var all []string
		for _, j := range q.joins {
			all = append(all, name(j[0], j[1])+" = "+name(j[2], j[3]))
		}
		all = append(all, conds...)
		r.Shuffle(len(all), func(i, j int) { all[i], all[j] = all[j], all[i] })
		q.sql = "SELECT " + selStr + " FROM " + strings.Join(from, ", ")
		if len(all) > 0 {
			q.sql += " WHERE " + strings.Join(all, " AND ")
		}
		tags["comma-syntax"] = true
	}
	q.sql += ";"
	if nt == 3 {
		tags["three-tables"] = true
	}
	for k := 0; k < nt; k++ {
		if len(s.tabs[q.tables[k]].Rows) == 0 {
			tags["empty-table"] = true
		}
		for _, row := range s.tabs[q.tables[k]].Rows {
			for ci, c := range row {
				if c.Null {
					tags["null-data"] = true
					if s.idx[q.tables[k]][ci] != "" {
						tags["null-in-indexed-column"] = true
					}
				}
			}
		}
	}
	for _, j := range q.joins {
		for _, side := range [][2]int{{j[0], j[1]}, {j[2], j[3]}} {
			for _, row := range s.tabs[q.tables[side[0]]].Rows {
				if row[side[1]].Null {
					tags["null-join-key"] = true
				}
			}
		}
	}
	for t := range tags {
		q.tags = append(q.tags, t)
	}
	sort.Strings(q.tags)
	return q
}

func (s *c11State) run(q *c11Query, phase string) {
	if s.dead {
		s.open()
	}
	must, may := s.eval(q)
	var r sqlx.Result
	msg, panicked := guarded(func() {
		txn := s.db.Begin()
		r = s.db.Exec(txn, q.sql)
		if r.Aborted {
			s.db.Abort(txn)
		} else {
			s.db.Commit(txn)
		}
	})
	s.res.Add("join_queries", 1)
	s.res.Add("queries_"+phase, 1)
	desc := map[string]any{"seed": s.env.Seed, "statement": q.sql, "phase": phase}
	for i, t := range s.tabs {
		var cols []string
		for j, c := range t.Cols {
			cols = append(cols, c.Name+" "+c.K.String()+"/"+s.idx[i][j])
		}
		var rows []string
		for k, row := range t.Rows {
			if k >= 12 {
				rows = append(rows, fmt.Sprintf("... %d rows", len(t.Rows)))
				break
			}
			rows = append(rows, row.String())
		}
		desc[t.Name] = map[string]any{"cols": cols, "rows": rows, "via": s.via[i]}
	}
	tags := append([]string{"stats-" + phase}, q.tags...)
	switch {
	case panicked:
		s.dead = true
		s.res.Violate("panic", tags, desc, "%s panicked [%s statistics]: %s", q.sql, phase, msg)
		return
	case r.Err != nil:
		s.res.Violate("error", tags, desc, "%s failed [%s statistics]: %v", q.sql, phase, r.Err)
		return
	case r.Aborted:
		s.res.Violate("abort", tags, desc, "single-user %s aborted [%s statistics]", q.sql, phase)
		return
	}
	s.res.Seen("plan_shapes", r.Shape)
	for _, a := range []string{"HashJoin", "IndexJoin", "NestedLoopJoin"} {
		if strings.Contains(r.Shape, a) {
			s.res.Add("executions_with_"+a, 1)
			tags = append(tags, "plan-"+a)
		}
	}
	if d := rm.DiffMultiset(r.Rows, must, may); d != "" {
		desc["plan"] = r.Shape
		s.res.Violate("wrong-answer-"+rm.DiffKind(r.Rows, must, may), tags, desc, "%s [plan %s, %s statistics]: %s", q.sql, r.Shape, phase, d)
	}
	cross := 1
	for _, k := range q.tables {
		cross *= len(s.tabs[k].Rows)
	}
	if len(must) > 0 && len(must) < cross {
		s.res.Nontrivial = true
		s.res.Add("nontrivial_queries", 1)
	}
}

func c11Run(env *core.Env, idx int) *core.CaseResult {
	r := env.Rand(idx)
	res := core.NewResult()
	s := &c11State{env: env, r: r, res: res}
	nt := 2 + r.Intn(2)
	// every twelfth case: two tables of 400-1200 rows in a pool of 32-64 frames, so that the build side of a hash join
	// needs several temp pages and those pages (like the heap pages) are evicted and read back while the join runs
	big := idx%12 == 7
	if big {
		nt = 2
		s.memKB = []int{128, 192, 256}[r.Intn(3)]
		s.big = true
		res.Add("cases_with_tables_larger_than_the_pool", 1)
	}
	shared := r.Intn(3) == 0 // tables share column names (id, a, ...)
	apiVals := r.Intn(4) == 0
	apiNoNull := apiVals && r.Intn(2) == 0    // API-only values without NULLs (NULL join keys / NULLs in indexed columns are listed findings)
	signedZeros := !apiVals && r.Intn(4) == 0 // float columns hold +0.0 and -0.0 (no NULLs, nothing else beyond the literal forms)
	// every sixth case: INT and VARCHAR cells are drawn half of the time from pairs of DIFFERENT values with the SAME 32-bit hash
	// (found by a birthday search with the engine's own hash function - input selection only): in a hash join they share a bucket
	collide := idx%6 == 4 && !big
	if collide {
		c11FindCollisions()
		res.Add("cases_with_join_keys_of_equal_hash", 1)
	}
	for i := 0; i < nt; i++ {
		nc := 1 + r.Intn(4)
		t := &rm.Table{Name: string(rune('p' + i))}
		via := "sql"
		if r.Intn(3) == 0 {
			via = "api"
		}
		var ix []string
		for c := 0; c < nc; c++ {
			name := fmt.Sprintf("%c%d", 'a'+rune(i), c)
			if shared {
				name = []string{"id", "a", "b", "c"}[c]
			}
			t.Cols = append(t.Cols, rm.Col{Name: name, K: rm.Kind(r.Intn(3))})
			if c == 0 {
				t.Cols[0].K = rm.KInt
			}
			if via == "sql" || r.Intn(2) == 0 {
				ix = append(ix, "skiplist")
			} else {
				ix = append(ix, "")
			}
		}
		n := []int{0, 1, 3, 8, 20, 60}[r.Intn(6)]
		keySpace := 0
		if big {
			// table p: 2000-4000 rows of ~100-170 bytes (50-150 heap pages); table q: 400-1000 narrow rows (several temp pages as a
			// hash-join build side); join keys mostly unique in q, so the answer has about as many rows as p
			via = "api"
			if i == 0 {
				n = 2000 + r.Intn(2001)
				t.Cols = []rm.Col{{Name: t.Cols[0].Name, K: rm.KInt}, {Name: "ppad", K: rm.KStr}, {Name: "pk", K: rm.KInt}}
			} else {
				n = 400 + r.Intn(601)
				t.Cols = []rm.Col{{Name: t.Cols[0].Name, K: rm.KInt}, {Name: "qf", K: rm.Kind(r.Intn(2))}, {Name: "qs", K: rm.KStr}}
			}
			nc = 3
			ix = []string{"", "", ""}
			if r.Intn(2) == 0 {
				ix[0] = "skiplist"
			}
			keySpace = 500 + r.Intn(700)
		}
		for k := 0; k < n; k++ {
			row := make(rm.Row, nc)
			for c := range row {
				if big && c == 0 {
					row[c] = rm.Int(int32(r.Intn(keySpace))) // q: mostly unique join keys with duplicates and misses; p: every key several times
				} else if big && t.Cols[c].Name == "ppad" {
					row[c] = rm.Str(fmt.Sprintf("r%d.", k) + strings.Repeat(string(rune('a'+r.Intn(26))), 80+r.Intn(70)))
				} else if collide && t.Cols[c].K == rm.KInt && len(c11CollInts) > 0 && r.Intn(2) == 0 {
					pr := c11CollInts[r.Intn(min(3, len(c11CollInts)))]
					row[c] = rm.Int(pr[r.Intn(2)])
				} else if collide && t.Cols[c].K == rm.KStr && len(c11CollStrs) > 0 && r.Intn(2) == 0 {
					pr := c11CollStrs[r.Intn(min(3, len(c11CollStrs)))]
					row[c] = rm.Str(pr[r.Intn(2)])
				} else if t.Cols[c].K == rm.KInt && r.Intn(2) == 0 {
					row[c] = rm.Int(int32(r.Intn(8))) // dense join keys: duplicates and misses
				} else if t.Cols[c].K == rm.KFloat && signedZeros && r.Intn(4) == 0 {
					// zeros of both signs compare equal: they have to meet in every join algorithm
					row[c] = rm.Float(float32(math.Copysign(0, float64(1-2*r.Intn(2)))))
				} else {
					row[c] = gen.Value(r, t.Cols[c].K, apiVals, false)
					for apiNoNull && row[c].Null {
						row[c] = gen.Value(r, t.Cols[c].K, apiVals, false)
					}
				}
			}
			t.Rows = append(t.Rows, row)
		}
		s.tabs = append(s.tabs, t)
		s.via = append(s.via, via)
		s.idx = append(s.idx, ix)
	}
	s.open()
	nq := 8
	if env.Thorough() {
		nq = 16
	}
	if s.big {
		nq = 3
	}
	var qs []*c11Query
	for i := 0; i < nq; i++ {
		qs = append(qs, s.genQuery())
	}
	runAll := func(phase string) {
		for _, q := range qs {
			s.run(q, phase)
		}
	}
	runAll("none")
	stat := func(f func()) {
		if s.dead {
			s.open()
		}
		if msg, p := guarded(f); p {
			res.Violate("panic", []string{"stats-update"}, nil, "statistics update panicked: %s", msg)
			s.dead = true
		}
	}
	// fresh for one table only
	stat(func() {
		tm := s.db.Cat.GetTableByName(s.tabs[0].Name)
		txn := s.db.Begin()
		tm.GetStatistics().Update(tm, txn)
		s.db.Commit(txn)
	})
	runAll("one-table")
	stat(func() { s.db.UpdateStats() })
	runAll("fresh")
	// swap sizes: empty the largest table, fill the smallest; statistics stay as they were
	if !s.dead {
		big, small := 0, 0
		for i, t := range s.tabs {
			if len(t.Rows) > len(s.tabs[big].Rows) {
				big = i
			}
			if len(t.Rows) < len(s.tabs[small].Rows) {
				small = i
			}
		}
		if big != small {
			msg, p := guarded(func() {
				keep := s.tabs[big].Rows
				if len(keep) > 2 {
					keep = keep[:2]
				}
				// rebuild database with swapped sizes but keep the old statistics object state: do it by DML
				txn := s.db.Begin()
				var add []rm.Row
				for k := 0; k < 40; k++ {
					row := make(rm.Row, len(s.tabs[small].Cols))
					for c := range row {
						if s.tabs[small].Cols[c].K == rm.KInt {
							row[c] = rm.Int(int32(r.Intn(8)))
						} else {
							row[c] = gen.Value(r, s.tabs[small].Cols[c].K, false, false)
						}
					}
					add = append(add, row)
				}
				rr := s.db.InsertPlan(txn, s.tabs[small].Name, add)
				if rr.Aborted {
					panic("insert aborted")
				}
				s.db.Commit(txn)
				s.tabs[small].Rows = append(s.tabs[small].Rows, add...)
			})
			if p {
				res.Violate("dml-panic", nil, nil, "bulk insert for the stale-statistics phase panicked: %s", msg)
				s.dead = true
			}
			runAll("stale")
		}
	}
	if idx < 3 && len(qs) > 0 {
		res.Sample = map[string]any{"query": qs[0].sql, "tables": len(s.tabs)}
	}
	res.Key = fmt.Sprintf("c11-%d-%s", idx, qs[0].sql)
	return res
}

var (
	c11CollOnce sync.Once
	c11CollInts [][2]int32
	c11CollStrs [][2]string
)

// c11FindCollisions: pairs of different INT / VARCHAR values whose engine hash (hash.HashValue, 32 bits) is equal.
func c11FindCollisions() {
	c11CollOnce.Do(func() {
		seen := map[uint32]int32{}
		for i := int32(0); i < 400000 && len(c11CollInts) < 6; i++ {
			v := types.NewInteger(i)
			h := enginehash.HashValue(&v)
			if j, ok := seen[h]; ok {
				c11CollInts = append(c11CollInts, [2]int32{j, i})
			} else {
				seen[h] = i
			}
		}
		seenS := map[uint32]string{}
		for i := 0; i < 400000 && len(c11CollStrs) < 6; i++ {
			str := fmt.Sprintf("key%d", i)
			v := types.NewVarchar(str)
			h := enginehash.HashValue(&v)
			if j, ok := seenS[h]; ok {
				c11CollStrs = append(c11CollStrs, [2]string{j, str})
			} else {
				seenS[h] = str
			}
		}
	})
}
