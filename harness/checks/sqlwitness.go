package checks

// A generic, concrete SQL witness: used by the SQL-level checks to re-run the witnesses of listed findings
// (known_findings.jsonl) and hand-written regression cases. The witness carries its own expected answers.

import (
	"encoding/json"
	"fmt"
	"strings"

	"github.com/ryogrid/SamehadaDB/lib/storage/access"

	"verifharness/internal/core"
	rm "verifharness/internal/refmodel"
	"verifharness/internal/sqlx"
)

type wCell struct {
	I    *int32   `json:"i,omitempty"`
	F    *float32 `json:"f,omitempty"`
	S    *string  `json:"s,omitempty"`
	SRep []any    `json:"srep,omitempty"` // ["m", 3000]
	Null string   `json:"null,omitempty"` // INT | FLOAT | VARCHAR
}

func (c wCell) cell() rm.Cell {
	switch {
	case c.I != nil:
		return rm.Int(*c.I)
	case c.F != nil:
		return rm.Float(*c.F)
	case c.S != nil:
		return rm.Str(*c.S)
	case len(c.SRep) == 2:
		return rm.Str(strings.Repeat(c.SRep[0].(string), int(c.SRep[1].(float64))))
	}
	switch c.Null {
	case "FLOAT":
		return rm.Null(rm.KFloat)
	case "VARCHAR":
		return rm.Null(rm.KStr)
	}
	return rm.Null(rm.KInt)
}

type wTable struct {
	Name string   `json:"name"`
	Cols []rm.Col `json:"cols"`
	Via  string   `json:"via"` // sql | api
	Idx  []string `json:"idx,omitempty"`
}

type wStep struct {
	SQL        string     `json:"sql,omitempty"`
	InsertPlan string     `json:"insert_plan,omitempty"` // table name: insert Rows through the plan API
	Rows       [][]wCell  `json:"rows,omitempty"`
	Stats      bool       `json:"stats,omitempty"`  // run a statistics pass
	Expect     *[][]wCell `json:"expect,omitempty"` // expected answer (multiset); nil = only "must complete"
	Txn        int        `json:"txn,omitempty"`    // 0 = auto-commit; n>0 = explicit transaction handle n
	End        string     `json:"end,omitempty"`    // "commit" | "abort" of Txn
	Reopen     string     `json:"reopen,omitempty"` // "clean" (Shutdown) | "crash" (close files without flush); needs "file": true
	Audit      string     `json:"audit,omitempty"`  // table name: every index must agree with the heap
	AuditKinds []string   `json:"audit_kinds,omitempty"`
}

type sqlWitness struct {
	File   bool     `json:"file,omitempty"`
	MemKB  int      `json:"memKB"`
	Tables []wTable `json:"tables"`
	Steps  []wStep  `json:"steps"`
}

// runSQLWitness executes the witness; any deviation becomes a violation with the kinds used by the SQL checks.
func runSQLWitness(env *core.Env, raw json.RawMessage) *core.CaseResult {
	res := core.NewResult()
	var w sqlWitness
	if err := json.Unmarshal(raw, &w); err != nil {
		res.Inconclusive = "bad witness: " + err.Error()
		return res
	}
	if w.MemKB == 0 {
		w.MemKB = 1024
	}
	sqlx.RemoveFiles(env.TmpDir + "/witness")
	db := sqlx.Open(env.TmpDir+"/witness", w.MemKB, sqlx.Options{File: w.File})
	for _, t := range w.Tables {
		if t.Via == "api" {
			db.CreateTableAPI(t.Name, t.Cols, t.Idx)
		} else if err := db.CreateTableSQL(t.Name, t.Cols); err != nil {
			res.Inconclusive = "create table failed: " + err.Error()
			return res
		}
	}
	conv := func(rows [][]wCell) []rm.Row {
		out := make([]rm.Row, len(rows))
		for i, r := range rows {
			out[i] = make(rm.Row, len(r))
			for j, c := range r {
				out[i][j] = c.cell()
			}
		}
		return out
	}
	open := map[int]*txnHandle{}
	for i, st := range w.Steps {
		var r sqlx.Result
		desc := st.SQL
		if st.Reopen != "" {
			msg, panicked := guarded(func() {
				if st.Reopen == "clean" {
					db.S.Shutdown()
				} else {
					db.S.ShutdownForTescase()
				}
				db = sqlx.Open(env.TmpDir+"/witness", w.MemKB, sqlx.Options{File: true})
			})
			if panicked {
				res.Violate("restart-panic", nil, map[string]any{"step": i}, "step %d: reopen (%s) panicked: %s", i, st.Reopen, msg)
				return res
			}
			continue
		}
		if st.Audit != "" {
			var problems []string
			msg, panicked := guarded(func() { problems, _, _ = db.IndexAudit(st.Audit, st.AuditKinds, nil, nil) })
			if panicked {
				res.Violate("audit-panic", nil, map[string]any{"step": i}, "step %d: index audit panicked: %s", i, msg)
				return res
			}
			if len(problems) > 0 {
				res.Violate("index-disagrees-with-table", nil, map[string]any{"step": i}, "step %d: %s", i, strings.Join(problems, "; "))
				return res
			}
			continue
		}
		msg, panicked := guarded(func() {
			switch {
			case st.Stats:
				db.UpdateStats()
				desc = "statistics pass"
			case st.End != "":
				h := open[st.Txn]
				if h != nil {
					if st.End == "abort" {
						db.Abort(h.t)
					} else {
						db.Commit(h.t)
					}
					delete(open, st.Txn)
				}
				desc = st.End
			case st.InsertPlan != "":
				desc = "InsertPlanNode into " + st.InsertPlan
				if st.Txn > 0 {
					h := open[st.Txn]
					if h == nil {
						h = &txnHandle{t: db.Begin()}
						open[st.Txn] = h
					}
					r = db.InsertPlan(h.t, st.InsertPlan, conv(st.Rows))
				} else {
					txn := db.Begin()
					r = db.InsertPlan(txn, st.InsertPlan, conv(st.Rows))
					if r.Aborted {
						db.Abort(txn)
					} else {
						db.Commit(txn)
					}
				}
			case st.Txn > 0:
				h := open[st.Txn]
				if h == nil {
					h = &txnHandle{t: db.Begin()}
					open[st.Txn] = h
				}
				r = db.Exec(h.t, st.SQL)
				if r.Aborted {
					db.Abort(h.t)
					delete(open, st.Txn)
				}
			default:
				txn := db.Begin()
				r = db.Exec(txn, st.SQL)
				if r.Aborted {
					db.Abort(txn)
				} else {
					db.Commit(txn)
				}
			}
		})
		isSelect := strings.HasPrefix(strings.ToUpper(strings.TrimSpace(st.SQL)), "SELECT")
		c := map[string]any{"step": i, "statement": desc}
		switch {
		case panicked:
			k := "dml-panic"
			if isSelect {
				k = "panic"
			}
			res.Violate(k, nil, c, "step %d (%s) panicked: %s", i, desc, msg)
			return res
		case r.Err != nil:
			k := "dml-error"
			if isSelect {
				k = "error"
			}
			res.Violate(k, nil, c, "step %d (%s) failed: %v", i, desc, r.Err)
			return res
		case r.Aborted:
			k := "dml-abort"
			if isSelect {
				k = "abort"
			}
			res.Violate(k, nil, c, "step %d (%s) aborted", i, desc)
			return res
		}
		if st.Expect != nil {
			exp := conv(*st.Expect)
			if d := rm.DiffMultiset(r.Rows, exp, nil); d != "" {
				res.Violate("wrong-answer-"+rm.DiffKind(r.Rows, exp, nil), nil, c, "step %d (%s) [plan %s]: %s", i, desc, r.Shape, d)
			}
		}
	}
	res.Add("witness_steps", int64(len(w.Steps)))
	return res
}

type txnHandle struct{ t *access.Transaction }

var _ = fmt.Sprint
