package checks

// C01 / C02 - the crash laboratory: generated DML histories under the I/O recorder, EVERY I/O prefix after setup
// materialised as a crash image (plus torn variants of the last write), the real engine restarted on each image,
// and the recovered tables compared with the committed-state oracle.

import (
	"fmt"
	"math/rand"
	"os"
	"strings"
	"time"

	"verifharness/internal/core"
	"verifharness/internal/crashlab"
	"verifharness/internal/rec"
)

func init() {
	for _, id := range []string{"C01", "C02"} {
		id := id
		bias := "commit"
		if id == "C02" {
			bias = "loser"
		}
		core.Register(&core.Check{
			ID:    id,
			Level: "fault_enumeration",
			Rule: "case = one generated single-goroutine history (10-60 transactions, up to 3 open at once, interleaved at statement granularity: single/multi-row INSERT, in-place / growing / shrinking (relocating) / key-changing UPDATE, DELETE, repeated changes, explicit and conflict aborts, forced checkpoints, auto-commit statements; " +
				"pool sizes from the smallest workable to 1 MB; SQL- and API-created tables) run under the storage-boundary recorder; then EVERY prefix of its page-write / log-write / log-truncation sequence after setup is materialised as a crash image " +
				"(quick: capped per history by even sampling), plus torn variants of the last write (log: byte cuts at 1, 19, 20, 21, record boundaries +-1, len-1; page: 512-byte sector cuts), the real engine is restarted on every image and every table is read by a plan-level full scan. " +
				"Oracle: tables == committed transactions in commit order (+ an in-commit transaction wholly or not at all); restart and a post-recovery DML battery must succeed. Bias '" + bias + "'. " +
				"Non-trivial crash point = restarting the same image WITHOUT its log gives different tables (recovery had real redo/undo work); distinct by (history, prefix, tear)",
			Assumptions: []string{"crash model of the property: writes are durable in issue order once the call returned; a crash tears at most the last write",
				"three quarters of the histories are single-goroutine (at most one commit in progress at a crash point, deterministic replay); one quarter is driven by 3-6 client goroutines on disjoint rows (plus a concurrent checkpointer), " +
					"in two thirds of those the recorder does not serialise the engine's I/O calls: a page write is stamped when it is called, a log write when it has returned, so each prefix = every log write that had returned + every page write that had been issued; any subset of the commits in progress may be durable",
				"concurrent histories are schedule-dependent: their replay files carry the statements and the crash point, not the schedule"},
			NumCases: func(env *core.Env) int {
				if env.Thorough() {
					return 320
				}
				return 32
			},
			RunCase: func(env *core.Env, idx int) *core.CaseResult {
				b := bias
				if id == "C01" && idx%3 == 2 {
					b = "loser" // a third of C01's histories are abort-heavy: restart must also succeed there
				}
				return crashCase(env, idx, id, b)
			},
			Witness: runCrashWitness,
		})
	}
}

func crashParams(r *rand.Rand, env *core.Env, bias string) crashlab.Params {
	p := crashlab.Params{Bias: bias}
	p.MemKB = []int{64, 64, 72, 96, 128, 256, 1024}[r.Intn(7)]
	nt := 1
	if r.Intn(4) == 0 {
		nt = 2
	}
	for i := 0; i < nt; i++ {
		td := crashlab.TableDef{Name: fmt.Sprintf("h%d", i), Via: "sql", Idx: []string{"skiplist", "skiplist", "skiplist"}}
		if r.Intn(3) == 0 {
			td.Via = "api"
			td.Idx = []string{[]string{"skiplist", "btree", "uniq"}[r.Intn(3)], "", ""}
		}
		p.Tables = append(p.Tables, td)
	}
	if nt == 2 && p.MemKB < 128 {
		p.MemKB = 128
	}
	p.MaxPayload = 800
	allAPI := true
	for _, t := range p.Tables {
		if t.Via != "api" {
			allAPI = false
		}
	}
	if allAPI {
		p.MaxPayload = 3000
	}
	p.RowSizes = [][]int{{8, 8, 60}, {8, 60, 300}, {60, 300, 800, 1200}, {300, 1200, 3000}}[r.Intn(4)]
	p.Steps = 40 + r.Intn(100)
	if env.Thorough() {
		p.Steps = 60 + r.Intn(200)
	}
	p.MaxOpen = 1 + r.Intn(3)
	p.Checkpoint = r.Intn(2) == 0
	return p
}

// bigTxnParams turns p into a history whose transactions each change every one of 200-420 wide rows (see crashlab.Params.BigTxnRows).
func bigTxnParams(r *rand.Rand, p *crashlab.Params) {
	p.Tables = []crashlab.TableDef{{Name: "h0", Via: "api", Idx: []string{[]string{"skiplist", "uniq"}[r.Intn(2)], "", ""}}}
	p.MemKB = 8192
	p.MaxPayload = 3000
	p.RowSizes = []int{1400, 1700, 2200}
	p.BigTxnRows = 200 + r.Intn(220)
	p.MaxOpen = 1
}

func describeHistory(h *crashlab.History) map[string]any {
	log := h.StmtLog
	if len(log) > 60 {
		log = append(append([]string{}, log[:60]...), fmt.Sprintf("... %d more statements", len(h.StmtLog)-60))
	}
	return map[string]any{"memKB": h.P.MemKB, "clients": h.P.Clients, "unserialised_io": h.P.ConcurrentIO, "tables": h.P.Tables, "row_sizes": h.P.RowSizes, "max_open": h.P.MaxOpen, "checkpoints": h.P.Checkpoint, "statements": log, "events": len(h.Events)}
}

func eventDesc(e *rec.Event) string {
	switch e.Kind {
	case rec.WritePage:
		return fmt.Sprintf("WritePage(%d)", e.Page)
	case rec.WriteLog:
		return fmt.Sprintf("WriteLog(%d bytes)", len(e.Data))
	case rec.GCLog:
		return "GCLogFile"
	}
	return e.Mark + fmt.Sprintf("(T%d)", e.Txn)
}

// context of a crash point: which markers surround it.
func crashContext(h *crashlab.History, k int) string {
	var inside []string
	open := map[int]string{}
	for i := 0; i < k && i < len(h.Events); i++ {
		e := &h.Events[i]
		if e.Kind != rec.Marker {
			continue
		}
		switch e.Mark {
		case "BEGIN":
			open[e.Txn] = "open"
		case "COMMIT-CALL":
			open[e.Txn] = "committing"
		case "COMMIT-RET", "ABORT-RET":
			delete(open, e.Txn)
		case "CKPT-BEGIN":
			open[-1] = "checkpoint"
		case "CKPT-END":
			delete(open, -1)
		}
	}
	for t, st := range open {
		if t == -1 {
			inside = append(inside, "in-checkpoint")
		} else {
			inside = append(inside, st)
		}
	}
	if len(inside) == 0 {
		return "quiescent"
	}
	return strings.Join(uniqSorted(inside), "+")
}

func uniqSorted(s []string) []string {
	m := map[string]bool{}
	for _, x := range s {
		m[x] = true
	}
	var out []string
	for x := range m {
		out = append(out, x)
	}
	sortStrings(out)
	return out
}

func sortStrings(s []string) {
	for i := 1; i < len(s); i++ {
		for j := i; j > 0 && s[j] < s[j-1]; j-- {
			s[j], s[j-1] = s[j-1], s[j]
		}
	}
}

func init() {
	for _, id := range []string{"C01", "C02"} {
		core.SetCrashTagLogHook(id, func(env *core.Env, idx int, logPath string) []string {
			t := core.StickyTagsFromLog(logPath, idx)
			if len(t) == 1 && t[0] == "none" {
				return nil
			}
			return t
		})
	}
}

func crashCase(env *core.Env, idx int, prop, bias string) *core.CaseResult {
	r := env.Rand(idx)
	res := core.NewResult()
	p := crashParams(r, env, bias)
	conc := idx%4 == 1
	var h *crashlab.History
	var fatal string
	if conc {
		// a quarter of the histories are driven by several client goroutines (disjoint rows per client)
		p.Clients = 3 + r.Intn(4)
		p.MemKB = []int{128, 192, 256, 1024}[r.Intn(4)]
		if p.Clients > 4 && p.MemKB < 192 {
			p.MemKB = 192
		}
		p.MaxOpen = p.Clients
		p.ConcurrentIO = r.Intn(3) != 0
		p.LogDelay = []time.Duration{0, 100 * time.Microsecond, 500 * time.Microsecond}[r.Intn(3)]
		p.ThinkTime = []time.Duration{0, 200 * time.Microsecond}[r.Intn(2)]
		p.Steps = p.Steps * 3 / 2
		h, fatal = crashlab.RunConcurrent(r, fmt.Sprintf("%s/hist_%d", env.TmpDir, idx), p)
		res.Add("concurrent_histories", 1)
		res.Add("concurrent_history_clients", int64(p.Clients))
	} else {
		if idx%8 == 2 {
			// the recorded history starts on a database that earlier sessions filled and left like a crash (page LSNs > 0,
			// log truncated by the start-up, with or without an idle session in between)
			p.PreEpochs = 1 + r.Intn(2)
		}
		if idx%8 == 6 {
			// one transaction larger than the log buffer: wide rows, every row changed by one statement, big pool (no eviction
			// flushes the log in between), no index on the changed column
			bigTxnParams(r, &p)
			res.Add("histories_with_a_transaction_larger_than_the_log_buffer", 1)
		}
		h, fatal = crashlab.Run(r, fmt.Sprintf("%s/hist_%d", env.TmpDir, idx), p)
	}
	for k, v := range h.Stats {
		res.Add("history_"+k, v)
	}
	res.Add("histories", 1)
	res.Add("io_events_recorded", int64(len(h.Events)))
	if fatal != "" {
		res.Inconclusive = "live history panicked (not a crash-recovery observation): " + clipStr(fatal, 200)
		res.Add("histories_live_panic", 1)
		if len(h.Events) == 0 || h.SetupEnd == 0 {
			return res
		}
	}
	if h.LiveDiff != "" {
		res.Inconclusive = "live final state differs from the model: " + clipStr(h.LiveDiff, 200)
		return res
	}
	if idx < 2 {
		res.Sample = describeHistory(h)
	}
	// crash points
	var points []int
	for k := h.SetupEnd + 1; k <= len(h.Events); k++ {
		if h.Events[k-1].Kind != rec.Marker {
			points = append(points, k)
		}
	}
	limit := 120
	if env.Thorough() {
		limit = 2000
		if conc || p.BigTxnRows > 0 || p.PreEpochs > 0 {
			limit = 300 // restarts of these classes redo megabytes of log / large images: fewer, evenly spread crash points per history
			if !conc {
				limit = 150
			}
		}
	}
	chosen := map[int]bool{}
	if len(points) > limit {
		for i := 0; i < limit; i++ {
			chosen[points[i*len(points)/limit]] = true
		}
	} else {
		for _, k := range points {
			chosen[k] = true
		}
	}
	tornEvery := 5
	if env.Thorough() {
		tornEvery = 1
		if conc || p.BigTxnRows > 0 || p.PreEpochs > 0 {
			tornEvery = 4
		}
	}
	im := &rec.Image{}
	if h.Base != nil {
		im = h.Base.Clone()
	}
	path := fmt.Sprintf("%s/img_%d", env.TmpDir, idx)
	memKB := p.MemKB
	if p.BigTxnRows > 0 && idx%16 == 6 {
		// half of the oversized-transaction histories are recovered in a pool of 32 frames: redo and undo touch several
		// hundred pages, so recovered pages are evicted (written or dropped) and read back while recovery is still running
		memKB = 128
		res.Add("histories_recovered_in_a_pool_much_smaller_than_the_recovery_working_set", 1)
	}
	hdesc := describeHistory(h)
	hdesc["recovery_pool_KB"] = memKB
	nPoint := 0
	hung := false
	tornAtEOF := false
	lastPre := ""
	check := func(k int, img *rec.Image, tear string, last string) {
		if hung {
			return
		}
		// (a child that dies inside a recovery cannot report the input-side tags of the crash image it was working on:
		// they are printed to its log before the recovery starts, see core.SetCrashTagLogHook)
		pre := "none"
		if tear != "" {
			switch {
			case strings.HasPrefix(last, "WritePage") && tornAtEOF:
				pre = "torn-page-write-at-end-of-file"
			case strings.HasPrefix(last, "WritePage"):
				pre = "torn-page-write"
			default:
				pre = "torn-log-write"
			}
		}
		if pre != lastPre {
			fmt.Fprintf(os.Stderr, "STICKY-TAGS idx=%d %s\n", idx, pre)
			lastPre = pre
		}
		rc := crashlab.Recover(path, img, memKB, p.Tables, true)
		if rc.Hung {
			hung = true
			res.RestartChild = true
		}
		v := h.Judge(k, rc)
		rc.Close(path)
		res.Add("recoveries", 1)
		ctx := crashContext(h, k)
		res.Add("crash_points_"+ctx, 1)
		if tear != "" {
			res.Add("torn_variants", 1)
		}
		tags := []string{"ctx-" + ctx}
		if tear != "" {
			if strings.HasPrefix(last, "WritePage") && tornAtEOF {
				// the page had never been written before (the file ends inside it): nothing of its history is missing from the log,
				// so this is NOT the listed torn-page-write finding - the restart has to rebuild the page from the log
				tags = append(tags, "torn-page-write-at-end-of-file")
				res.Add("torn_page_writes_that_leave_a_short_file", 1)
			} else if strings.HasPrefix(last, "WritePage") {
				tags = append(tags, "torn-page-write")
			} else {
				tags = append(tags, "torn-log-write")
			}
		}
		for _, t := range p.Tables {
			tags = append(tags, "via-"+t.Via)
		}
		if conc {
			tags = append(tags, "concurrent-history")
			if v.OK && strings.Count(v.Matched, "+") > 1 {
				res.Add("crash_points_with_several_commits_in_progress_matched", 1)
			}
		}
		mine := v.C01
		other := v.C02
		if prop == "C02" {
			mine, other = v.C02, v.C01
		}
		if len(other) > 0 {
			res.Add("deviations_attributed_to_the_other_crash_property", 1)
			if os.Getenv("VERIF_SHOW_OTHER") != "" {
				res.Violate("other-property", tags, map[string]any{"crash_after_event": k, "idx": idx}, "crash after event %d (%s%s, %s): %s", k, last, tear, ctx, strings.Join(clipList(other, 4), "; "))
			}
		}
		if len(mine) > 0 {
			kind := "committed-lost"
			if prop == "C02" {
				kind = "loser-visible"
			}
			if rc.Hung {
				kind = "restart-hang"
			} else if rc.Failure != "" {
				kind = "restart-failed"
			} else if rc.Battery != "" && len(mine) == 1 {
				kind = "post-recovery-battery"
			}
			desc := map[string]any{"history": hdesc, "crash_after_event": k, "last_event": last, "tear": tear, "context": ctx, "seed": env.Seed, "idx": idx}
			res.Violate(kind, tags, desc, "crash after event %d (%s%s, %s): %s", k, last, tear, ctx, strings.Join(clipList(mine, 4), "; "))
		}
		// non-triviality: does the log matter for this image?
		if len(mine) == 0 && len(other) == 0 && nPoint%3 == 0 && !hung {
			noLog := &rec.Image{DB: img.DB}
			rc2 := crashlab.Recover(path, noLog, memKB, p.Tables, false)
			v2 := h.Judge(k, rc2)
			rc2.Close(path)
			if !v2.OK {
				res.Nontrivial = true
				res.Add("points_where_log_mattered", 1)
				if len(v2.C01) > 0 {
					res.Add("points_needing_redo", 1)
				}
				if len(v2.C02) > 0 {
					res.Add("points_needing_undo", 1)
				}
			}
		}
		nPoint++
	}
	pos := 0
	for _, k := range points {
		// bring image to prefix k-1
		for pos < k-1 {
			im.Apply(&h.Events[pos])
			pos++
		}
		e := &h.Events[k-1]
		if chosen[k] {
			// torn variants of event k (image = prefix k-1 + part of e)
			if nPoint%tornEvery == 0 {
				for _, cut := range tearCuts(e, env.Thorough()) {
					if (prop == "C02" || conc || p.BigTxnRows > 0 || p.PreEpochs > 0) && e.Kind == rec.WritePage {
						continue // C02 quantifies over prefixes of the I/O trace; torn page writes are C01's quantifier (listed finding there)
					}
					t := im.Clone()
					tornAtEOF = im.TornBeyondEOF(e)
					t.ApplyTorn(e, cut)
					check(k-1, t, fmt.Sprintf(" torn at %d", cut), eventDesc(e))
					tornAtEOF = false
				}
			}
		}
		im.Apply(e)
		pos = k
		if chosen[k] {
			check(k, im, "", eventDesc(e))
		}
	}
	res.Key = fmt.Sprintf("%s-hist-%d", prop, idx)
	return res
}

// tearCuts: for a log write byte counts, for a page write sector counts.
func tearCuts(e *rec.Event, thorough bool) []int {
	switch e.Kind {
	case rec.WriteLog:
		n := len(e.Data)
		set := map[int]bool{}
		for _, c := range []int{1, 19, 20, 21, n - 1} {
			if c > 0 && c < n {
				set[c] = true
			}
		}
		recs, _, _ := rec.ParseLog(e.Data)
		for i, lr := range recs {
			if !thorough && i > 3 {
				break
			}
			for _, c := range []int{lr.Off - 1, lr.Off, lr.Off + 1} {
				if c > 0 && c < n {
					set[c] = true
				}
			}
		}
		// the boundaries in front of the LAST two records are always kept: a commit's write ends with
		// [... APPLYDELETE records, COMMIT], and "everything but the COMMIT record is durable" is the image in which
		// recovery has to undo applied deletes of a transaction that never committed (seeded change C02k)
		prio := map[int]bool{}
		for i := len(recs) - 2; i < len(recs); i++ {
			if i >= 1 && recs[i].Off > 0 && recs[i].Off < n {
				prio[recs[i].Off] = true
				delete(set, recs[i].Off)
			}
		}
		var out []int
		for c := range set {
			out = append(out, c)
		}
		sortInts(out)
		if !thorough && len(out) > 6 {
			out = out[:6]
		}
		for c := range prio {
			out = append(out, c)
		}
		sortInts(out)
		return out
	case rec.WritePage:
		if thorough {
			return []int{1, 2, 3, 4, 5, 6, 7}
		}
		return []int{1, 4}
	}
	return nil
}

func sortInts(s []int) {
	for i := 1; i < len(s); i++ {
		for j := i; j > 0 && s[j] < s[j-1]; j-- {
			s[j], s[j-1] = s[j-1], s[j]
		}
	}
}

func clipStr(s string, n int) string {
	if len(s) > n {
		return s[:n] + "..."
	}
	return s
}

func clipList(s []string, n int) []string {
	if len(s) > n {
		return append(append([]string{}, s[:n]...), fmt.Sprintf("... %d more", len(s)-n))
	}
	return s
}
