package checks

// C17 - each index container behaves as a sorted multimap, also under concurrency.
//
// The four index kinds are driven through the index.Index interface on a real buffer pool (in-memory disk manager,
// counted page allocations). Sequential cases: long random op sequences against an independent sorted-multimap model
// (internal/idxmodel), point lookups and ordered range scans compared after every batch. Concurrent cases: goroutines
// over 64 keys with unique (key,row id) entries and a static background set; per-key histories decided by porcupine,
// scans by the direct rules of DESIGN.md section 6. This file: registration, engine fixture, key material.

import (
	"crypto/sha1"
	"encoding/hex"
	"encoding/json"
	"fmt"
	"math"
	"math/rand"
	"runtime/debug"
	"strconv"
	"strings"
	"sync/atomic"
	"time"

	"github.com/ryogrid/SamehadaDB/lib/common"
	"github.com/ryogrid/SamehadaDB/lib/recovery"
	"github.com/ryogrid/SamehadaDB/lib/storage/buffer"
	"github.com/ryogrid/SamehadaDB/lib/storage/disk"
	"github.com/ryogrid/SamehadaDB/lib/storage/index"
	"github.com/ryogrid/SamehadaDB/lib/storage/index/index_constants"
	"github.com/ryogrid/SamehadaDB/lib/storage/page"
	"github.com/ryogrid/SamehadaDB/lib/storage/table/column"
	"github.com/ryogrid/SamehadaDB/lib/storage/table/schema"
	"github.com/ryogrid/SamehadaDB/lib/storage/tuple"
	"github.com/ryogrid/SamehadaDB/lib/types"

	"verifharness/internal/core"
	im "verifharness/internal/idxmodel"
)

const (
	c17Skip = iota
	c17Uniq
	c17Btree
	c17Hash
)

var (
	c17KindNames = []string{"skiplist", "uniq-skiplist", "btree", "hash"}
	c17TypeNames = []string{"int", "float", "varchar"}
)

const (
	c17SentMin = "SamehadaDBInfMinValue"
	c17SentMax = "SamehadaDBInfMaxValue"
	// live entries the hash index is allowed to hold (fixed capacity: 10 block pages of 252 slots)
	c17HashCap = 1800
)

func c17Counts(env *core.Env) (seq, conc int) {
	if env.Thorough() {
		return 4032, 1008
	}
	return 48, 24
}

func init() {
	// C19 runs one concurrent index-container case per repetition under the race detector (no hash index there, see c17Run)
	c17ConcurrentCase = func(env *core.Env, rep int) *core.CaseResult {
		nseq, nconc := c17Counts(env)
		for j := 0; j < nconc; j++ {
			i := (rep*5 + j) % nconc
			if c17ConcConfig(env, i).Kind != c17Hash {
				return c17Run(env, nseq+i)
			}
		}
		return nil
	}
	core.Register(&core.Check{
		ID:    "C17",
		Level: "exploration",
		Rule: "sequential cases: seeded op sequences (quick 2-6 k, thorough up to 50 k InsertEntry/DeleteEntry/UpdateEntry) on each of skip list, unique skip list, B-tree, hash index x integer/float/varchar keys, " +
			"duplicates, adjacent values, long strings, grow/drain phases; after every batch ScanKey of touched and untouched keys and GetRangeScanIterator over random bounds (incl. nil) are compared with a sorted multimap model (same entries, each once, key order). " +
			"Concurrent cases: 4-16 goroutines insert/delete/update/point-read/scan 64 keys with unique (key,row id) entries next to a static background set; per-key histories checked with porcupine against a set model, " +
			"scans and reads against the direct rules (sorted, duplicate-free, all background entries, foreground entry only inside its life window, stable entries contained), final state compared at quiescence. " +
			"Non-trivial = the pool saw >= 1 node split (page allocation) and >= 1 node removal (page deallocation) during the case (hash index: slots were freed and re-used); distinct by configuration hash",
		Assumptions: []string{
			"supported envelope: hash index below its fixed capacity and without UpdateEntry, B-tree varchar keys <= 24 bytes, string keys are NUL-free valid UTF-8, no NaN / -0 keys, row ids with page >= 0 (B-tree: slot <= 65535)",
			"a live row id is stored under one key at a time (row ids identify rows); DeleteEntry of an absent entry is not issued on the unique skip list (the wrapper panics by design)",
			"in-band sentinel keys (integer/float extremes, the two sentinel strings), re-insertion of an existing entry and deletion of absent entries are separate, counted and tagged input classes",
			"range scans are not required to be atomic snapshots (only the stated scan rules); point lookups and mutations are required to be linearizable per key",
		},
		NumCases:    func(env *core.Env) int { s, c := c17Counts(env); return s + c },
		RunCase:     c17Run,
		Witness:     c17Witness,
		CaseTimeout: 240 * time.Second,
		Vacuity: func(env *core.Env, agg *core.Aggregate) []string {
			var v []string
			for _, k := range []string{"seq_ops", "seq_point_lookups", "seq_range_scans", "conc_ops", "conc_keys_checked", "conc_scans_checked", "node_splits_seen", "node_removals_seen"} {
				if agg.Stats[k] == 0 {
					v = append(v, "counter "+k+" is zero")
				}
			}
			if agg.Stats["conc_overlapping_pairs"] < 50 {
				v = append(v, fmt.Sprintf("only %d overlapping same-key operation pairs in the concurrent histories", agg.Stats["conc_overlapping_pairs"]))
			}
			return v
		},
	})
	core.SetCrashTagHook("C17", func(env *core.Env, idx int) []string {
		nseq, _ := c17Counts(env)
		if idx < nseq {
			return c17SeqConfig(env, idx).tags()
		}
		return c17BuildConc(env, idx-nseq, c17ConcConfig(env, idx-nseq)).tags()
	})
}

func c17Run(env *core.Env, idx int) *core.CaseResult {
	res := core.NewResult()
	nseq, _ := c17Counts(env)
	if env.Race {
		var kind int
		if idx < nseq {
			kind = c17SeqConfig(env, idx).Kind
		} else {
			kind = c17ConcConfig(env, idx-nseq).Kind
		}
		if kind == c17Hash {
			// checkptr (part of -race) aborts the process in hash.NewLinearProbeHashTable: struct HashTableHeaderPage is
			// 4104 bytes laid over the 4096-byte page buffer. Not a C17 observation; the kind cannot run in this binary.
			res.Inconclusive = "hash index cannot be constructed under the -race binary (checkptr: HashTableHeaderPage straddles the page buffer)"
			return res
		}
	}
	if idx < nseq {
		c17Seq(env, idx, res)
	} else {
		c17Conc(env, idx, idx-nseq, res)
	}
	return res
}

// ---------------------------------------------------------------------------------------------
// engine fixture

type c17DM struct {
	disk.DiskManager
	allocs int64
}

func (d *c17DM) AllocatePage() types.PageID {
	atomic.AddInt64(&d.allocs, 1)
	return d.DiskManager.AllocatePage()
}

type c17Fix struct {
	kind, kt  int
	dm        *c17DM
	bpm       *buffer.BufferPoolManager
	idx       index.Index
	bt        *index.BTreeIndex
	sch       *schema.Schema
	twoCols   bool
	keys      []im.Key
	tups      []*tuple.Tuple
	allocBase int64
}

func c17TypeID(kt int) types.TypeID {
	switch kt {
	case im.KInt:
		return types.Integer
	case im.KFloat:
		return types.Float
	}
	return types.Varchar
}

func c17Value(k im.Key) types.Value {
	switch k.T {
	case im.KInt:
		return types.NewInteger(k.I)
	case im.KFloat:
		return types.NewFloat(k.F)
	}
	return types.NewVarchar(k.S)
}

// c17NewFix builds pool + index of the given kind and prepares the key tuples (keys: ascending list of the case).
func c17NewFix(kind, kt, frames int, twoCols bool, keys []im.Key) *c17Fix {
	f := &c17Fix{kind: kind, kt: kt, twoCols: twoCols, keys: keys}
	f.dm = &c17DM{DiskManager: disk.NewVirtualDiskManagerImpl("c17.db")}
	var dman disk.DiskManager = f.dm
	lm := recovery.NewLogManager(&dman)
	lm.ActivateLogging()
	f.bpm = buffer.NewBufferPoolManager(uint32(frames), dman, lm)
	ik := []index_constants.IndexKind{index_constants.IndexKindSkipList, index_constants.IndexKindUniqSkipList, index_constants.IndexKindBtree, index_constants.IndexKindHash}[kind]
	var cols []*column.Column
	col := uint32(0)
	if twoCols {
		cols = append(cols, column.NewColumn("pad", types.Integer, false, index_constants.IndexKindInvalid, types.PageID(-1), nil))
		col = 1
	}
	cols = append(cols, column.NewColumn("k", c17TypeID(kt), true, ik, types.PageID(-1), nil))
	f.sch = schema.NewSchema(cols)
	meta := index.NewIndexMetadata("k_index", "t", f.sch, []uint32{col})
	switch kind {
	case c17Skip:
		f.idx = index.NewSkipListIndex(meta, f.bpm, col, lm)
	case c17Uniq:
		f.idx = index.NewUniqSkipListIndex(meta, f.bpm, col)
	case c17Btree:
		f.bt = index.NewBTreeIndex(meta, f.bpm, col, lm, nil)
		f.idx = f.bt
	case c17Hash:
		f.idx = index.NewLinearProbeHashTableIndex(meta, f.bpm, col, common.BucketSizeOfHashIndex, types.InvalidPageID)
	}
	f.tups = make([]*tuple.Tuple, len(keys))
	for i, k := range keys {
		f.tups[i] = f.tuple(k)
	}
	f.allocBase = atomic.LoadInt64(&f.dm.allocs)
	return f
}

func (f *c17Fix) tuple(k im.Key) *tuple.Tuple {
	var vals []types.Value
	if f.twoCols {
		vals = append(vals, types.NewInteger(7))
	}
	vals = append(vals, c17Value(k))
	return tuple.NewTupleFromSchema(vals, f.sch)
}

func c17Rid(r im.RID) page.RID { return page.RID{PageID: types.PageID(r.Page), SlotNum: r.Slot} }

func (f *c17Fix) insert(ki int, r im.RID) { f.idx.InsertEntry(f.tups[ki], c17Rid(r), nil) }
func (f *c17Fix) delete(ki int, r im.RID) { f.idx.DeleteEntry(f.tups[ki], c17Rid(r), nil) }
func (f *c17Fix) update(ki int, r im.RID, ki2 int, r2 im.RID) {
	f.idx.UpdateEntry(f.tups[ki], c17Rid(r), f.tups[ki2], c17Rid(r2), nil)
}

func (f *c17Fix) scanKey(ki int) []im.RID {
	got := f.idx.ScanKey(f.tups[ki], nil)
	out := make([]im.RID, len(got))
	for i, r := range got {
		out[i] = im.RID{Page: int32(r.PageID), Slot: r.SlotNum}
	}
	return out
}

type c17ScanRow struct {
	rid    im.RID
	key    im.Key
	hasKey bool
}

// rangeScan drains the iterator over [lo, hi] (key indexes; -1 = nil). limit bounds a runaway iterator.
func (f *c17Fix) rangeScan(lo, hi int, limit int) (rows []c17ScanRow, runaway bool) {
	var lt, ht *tuple.Tuple
	if lo >= 0 {
		lt = f.tups[lo]
	}
	if hi >= 0 {
		ht = f.tups[hi]
	}
	it := f.idx.GetRangeScanIterator(lt, ht, nil)
	if it == nil {
		return nil, false
	}
	for {
		done, _, key, rid := it.Next()
		if done {
			return rows, false
		}
		row := c17ScanRow{}
		if rid != nil {
			row.rid = im.RID{Page: int32(rid.PageID), Slot: rid.SlotNum}
		}
		if key != nil && f.kind != c17Skip { // the skip-list wrapper hands out its internal encoded key
			row.hasKey = true
			switch key.ValueType() {
			case types.Integer:
				row.key = im.Key{T: im.KInt, I: key.ToInteger()}
			case types.Float:
				row.key = im.Key{T: im.KFloat, F: key.ToFloat()}
			case types.Varchar:
				row.key = im.Key{T: im.KStr, S: key.ToVarchar()}
			}
		}
		rows = append(rows, row)
		if len(rows) > limit {
			return rows, true
		}
	}
}

// removedPages is a lower bound of the node pages the container gave back so far (quiescent callers only).
func (f *c17Fix) removedPages() int64 {
	n := int64(len(f.bpm.GetReusablePageIDs()))
	for _, p := range f.bpm.GetPages() {
		if p != nil && p.IsDeallocated() {
			n++
		}
	}
	return n
}

func (f *c17Fix) allocated() int64 { return atomic.LoadInt64(&f.dm.allocs) - f.allocBase }

// closeBtree makes the B-link tree write its pages to the pool: page allocations = tree pages, reusable ids = freed pages.
func (f *c17Fix) closeBtree() (pages, freed int64) {
	a0 := atomic.LoadInt64(&f.dm.allocs)
	r0 := int64(len(f.bpm.GetReusablePageIDs()))
	f.bt.WriteOutContainerStateToBPM()
	return atomic.LoadInt64(&f.dm.allocs) - a0, int64(len(f.bpm.GetReusablePageIDs())) - r0
}

// ---------------------------------------------------------------------------------------------
// key material

func c17KeyJSON(k im.Key) string {
	switch k.T {
	case im.KInt:
		return "i:" + strconv.Itoa(int(k.I))
	case im.KFloat:
		return fmt.Sprintf("f:%08x(%g)", math.Float32bits(k.F), k.F)
	}
	return "s:" + strconv.Quote(k.S)
}

func c17ParseKey(s string) (im.Key, error) {
	switch {
	case strings.HasPrefix(s, "i:"):
		n, err := strconv.ParseInt(s[2:], 10, 32)
		return im.Key{T: im.KInt, I: int32(n)}, err
	case strings.HasPrefix(s, "f:"):
		h := s[2:]
		if i := strings.IndexByte(h, '('); i >= 0 {
			h = h[:i]
		}
		n, err := strconv.ParseUint(h, 16, 32)
		return im.Key{T: im.KFloat, F: math.Float32frombits(uint32(n))}, err
	case strings.HasPrefix(s, "s:"):
		u, err := strconv.Unquote(s[2:])
		return im.Key{T: im.KStr, S: u}, err
	}
	return im.Key{}, fmt.Errorf("bad key %q", s)
}

// c17BtreeStopperInt: integers from here on encode to a key starting with 0xff 0xff, the B-link tree's own in-band
// "infinite" stopper key; they belong to the sentinel class of the B-tree index.
const c17BtreeStopperInt = 0x7FFF0000

func c17IsSentinel(kind int, k im.Key) bool {
	switch k.T {
	case im.KInt:
		if kind == c17Btree && k.I >= c17BtreeStopperInt {
			return true
		}
		return k.I == math.MinInt32 || k.I == math.MaxInt32
	case im.KFloat:
		return k.F == math.MaxFloat32 || k.F == -math.MaxFloat32 || math.IsInf(float64(k.F), 0)
	}
	return k.S == c17SentMin || k.S == c17SentMax
}

var c17Alphabet = []string{"a", "b", "c", "z", "A", "Z", "0", "9", " ", "_", "~", "!", "\x01", "\x7f", "é", "日", "𝄞", "S"}

func c17RandStr(rng *rand.Rand, n int) string {
	var sb strings.Builder
	for sb.Len() < n {
		c := c17Alphabet[rng.Intn(len(c17Alphabet))]
		if sb.Len()+len(c) > n {
			c = "x"
		}
		sb.WriteString(c)
	}
	return sb.String()
}

// c17StrLen draws a key length of the given class.
func c17StrLen(rng *rand.Rand, class string) int {
	switch class {
	case "short":
		return 1 + rng.Intn(8)
	case "btree":
		return 1 + rng.Intn(24)
	case "medium":
		return 20 + rng.Intn(41)
	case "long":
		return 200 + rng.Intn(701)
	}
	// mixed
	switch rng.Intn(4) {
	case 0:
		return 1 + rng.Intn(8)
	case 1:
		return 20 + rng.Intn(41)
	case 2:
		return 200 + rng.Intn(300)
	}
	return 600 + rng.Intn(301)
}

// c17GenKeys draws n distinct non-sentinel keys of type kt: clusters of adjacent values, values around byte-carry and
// sign boundaries, near-extremes, shared string prefixes.
func c17GenKeys(rng *rand.Rand, kind, kt, n int, strClass string) []im.Key {
	seen := map[string]bool{}
	var out []im.Key
	add := func(k im.Key) {
		if c17IsSentinel(kind, k) {
			return
		}
		if k.T == im.KFloat && (k.F != k.F || (k.F == 0 && math.Signbit(float64(k.F)))) {
			return
		}
		if k.T == im.KStr && (k.S == "" || strings.ContainsRune(k.S, 0)) {
			return
		}
		id := c17KeyJSON(k)
		if !seen[id] && len(out) < n {
			seen[id] = true
			out = append(out, k)
		}
	}
	switch kt {
	case im.KInt:
		anchors := []int64{0, -1, 255, 256, -256, 65535, 65536, 1 << 24, -(1 << 24), math.MaxInt32 - 1, math.MinInt32 + 1, 1000, -100000}
		for len(out) < n {
			switch rng.Intn(4) {
			case 0, 1: // adjacent run
				b := anchors[rng.Intn(len(anchors))] + int64(rng.Intn(7)-3)
				run := 1 + rng.Intn(1+n/3)
				for j := 0; j < run; j++ {
					v := b + int64(j)
					if v > math.MinInt32 && v < math.MaxInt32 {
						add(im.Key{T: im.KInt, I: int32(v)})
					}
				}
			case 2:
				add(im.Key{T: im.KInt, I: int32(rng.Uint32())})
			default: // stride
				b := int64(int32(rng.Uint32()) / 2)
				st := int64(1 + rng.Intn(1000))
				for j := 0; j < 1+rng.Intn(1+n/4); j++ {
					v := b + int64(j)*st
					if v > math.MinInt32 && v < math.MaxInt32 {
						add(im.Key{T: im.KInt, I: int32(v)})
					}
				}
			}
		}
	case im.KFloat:
		anchors := []float32{0, 1, -1, 0.5, -0.5, 1e-38, -1e-38, 1e-45, 3.4e38, -3.4e38, 16777216, -16777216, 1e10, -1e-10, 123.456}
		for len(out) < n {
			switch rng.Intn(4) {
			case 0, 1: // adjacent representable floats
				b := anchors[rng.Intn(len(anchors))]
				run := 1 + rng.Intn(1+n/3)
				dir := float32(math.Inf(1))
				if rng.Intn(2) == 0 {
					dir = float32(math.Inf(-1))
				}
				for j := 0; j < run; j++ {
					add(im.Key{T: im.KFloat, F: b})
					b = math.Nextafter32(b, dir)
				}
			case 2:
				add(im.Key{T: im.KFloat, F: math.Float32frombits(rng.Uint32())})
			default:
				b := float32(rng.Intn(2000) - 1000)
				for j := 0; j < 1+rng.Intn(1+n/4); j++ {
					add(im.Key{T: im.KFloat, F: b + float32(j)*0.25})
				}
			}
		}
	default:
		var prefixes []string
		for i := 0; i < 1+rng.Intn(4); i++ {
			prefixes = append(prefixes, c17RandStr(rng, rng.Intn(6)))
		}
		prefixes = append(prefixes, "SamehadaDBInf", "")
		for len(out) < n {
			l := c17StrLen(rng, strClass)
			p := prefixes[rng.Intn(len(prefixes))]
			switch rng.Intn(3) {
			case 0: // numbered family: p000017xxxx
				cnt := 1 + rng.Intn(1+n/3)
				start := rng.Intn(100000)
				pad := c17Alphabet[rng.Intn(10)]
				for j := 0; j < cnt; j++ {
					s := fmt.Sprintf("%s%06d", p, start+j)
					if len(s) < l {
						s += strings.Repeat(pad, l-len(s))
					}
					if len(s) > l && l >= len(p)+1 {
						s = s[:l]
					}
					add(im.Key{T: im.KStr, S: c17FixLen(s, strClass)})
				}
			case 1: // prefixes of one long string (every key a prefix of the next)
				s := p + c17RandStr(rng, l)
				s = c17FixLen(s, strClass)
				for j := 0; j < 1+rng.Intn(6) && len(s) > 1; j++ {
					add(im.Key{T: im.KStr, S: c17ValidCut(s, len(s)-j)})
				}
			default:
				add(im.Key{T: im.KStr, S: c17FixLen(p+c17RandStr(rng, l), strClass)})
			}
		}
	}
	return out
}

func c17MaxStrLen(strClass string) int {
	if strClass == "btree" {
		return 24
	}
	return 900
}

func c17FixLen(s string, strClass string) string { return c17ValidCut(s, c17MaxStrLen(strClass)) }

// c17ValidCut cuts s to at most n bytes without splitting a UTF-8 sequence.
func c17ValidCut(s string, n int) string {
	if n < 1 {
		n = 1
	}
	if len(s) <= n {
		return s
	}
	for n > 0 && s[n]&0xC0 == 0x80 {
		n--
	}
	return s[:n]
}

func c17Sentinels(kind, kt int) []im.Key {
	switch kt {
	case im.KInt:
		if kind == c17Btree {
			return []im.Key{{T: im.KInt, I: math.MinInt32}, {T: im.KInt, I: math.MaxInt32}, {T: im.KInt, I: math.MaxInt32 - 1}, {T: im.KInt, I: c17BtreeStopperInt}}
		}
		return []im.Key{{T: im.KInt, I: math.MinInt32}, {T: im.KInt, I: math.MaxInt32}}
	case im.KFloat:
		return []im.Key{{T: im.KFloat, F: -math.MaxFloat32}, {T: im.KFloat, F: math.MaxFloat32}, {T: im.KFloat, F: float32(math.Inf(1))}, {T: im.KFloat, F: float32(math.Inf(-1))}}
	}
	return []im.Key{{T: im.KStr, S: c17SentMin}, {T: im.KStr, S: c17SentMax}}
}

func c17CfgHash(v any) string {
	b, _ := json.Marshal(v)
	h := sha1.Sum(b)
	return hex.EncodeToString(h[:10])
}

func c17PanicText(p any) string {
	st := string(debug.Stack())
	// keep the engine frames
	var keep []string
	for _, l := range strings.Split(st, "\n") {
		if strings.Contains(l, "SamehadaDB/lib/") || strings.Contains(l, "bltree-go") {
			keep = append(keep, strings.TrimSpace(l))
		}
		if len(keep) >= 8 {
			break
		}
	}
	return fmt.Sprintf("%v | %s", p, strings.Join(keep, " <- "))
}
