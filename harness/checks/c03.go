package checks

// C03 - abort restores the exact pre-transaction state; C07 - indexes agree with their table whenever no transaction is active.
// One driver: crash-laboratory style histories (commits, explicit aborts, conflict aborts) with an observation at every
// quiescent point: heap scan vs model, every index vs the heap (point lookups for present and formerly present keys, full and
// partial range scans, in key order, each entry once), before/after snapshots around a lone aborted transaction, and
// (C07) the same audit after clean and crash-like restarts.

import (
	"os"
	"fmt"
	"math/rand"
	"sort"
	"strings"
	"time"

	"verifharness/internal/core"
	"verifharness/internal/crashlab"
	rm "verifharness/internal/refmodel"
	"verifharness/internal/sqlx"
)

func init() {
	for _, id := range []string{"C03", "C07"} {
		id := id
		rule := "case = one generated history on one table - every third case on two tables written by the same transactions, every sixth case driven by 3-6 client goroutines on disjoint rows and audited once at the end - (id INT, k INT, v VARCHAR) whose columns carry a generated mix of index kinds (SQL-created: skip list on every column; API-created: skip list / unique skip list / B-tree on id, none / skip list / B-tree / hash on k, none / skip list / B-tree on v): " +
			"multi-statement transactions of single/multi-row INSERT, in-place / growing / shrinking (relocating) / key-changing UPDATE (none on hash-indexed tables), DELETE, repeated changes of one row, ended by commit, explicit abort or a conflict abort provoked through a second open transaction; " +
			"at EVERY quiescent point (no transaction open): plan-level heap scan vs committed-state model; every index vs the heap - point lookup of every present and every formerly present key, full range scan and random intervals (each in-range row once, in key order); index-path SQL point queries vs the model. "
		if id == "C03" {
			rule += "C03 verdicts: after a window that contains an aborted transaction the heap must equal the model and every index must agree; around a lone aborted transaction the snapshot (rows with row ids, index range order) taken before Begin must equal the one after Abort; the committed suffix history must keep agreeing. " +
				"Non-trivial = window whose aborted transaction relocated a row, changed a key or touched one row twice; distinct by (history, window)"
		} else {
			rule += "C07 verdicts: any index/heap disagreement at any quiescent point, and after restarts: clean Shutdown()+reopen and crash-like close+reopen (recovery) of the file-backed database. " +
				"Non-trivial = audit of an index that holds >= 2 equal keys after >= 1 delete and >= 1 relocation; distinct by (history, point)"
		}
		core.Register(&core.Check{
			ID:          id,
			Level:       "exploration",
			Rule:        rule,
			Assumptions: []string{"the heap (plan-level sequential scan) is the reference for index audits; the model separately checks the heap", "NULL keys are not generated (listed finding of C06)", "hash index: below its fixed capacity, point lookups only, no UPDATE"},
			NumCases: func(env *core.Env) int {
				if env.Thorough() {
					return 2400
				}
				return 288
			},
			RunCase:     func(env *core.Env, idx int) *core.CaseResult { return idxHistCase(env, idx, id) },
			Witness:     runSQLWitness,
			CaseTimeout: 40 * time.Second,
		})
	}
}

type idxSnap struct {
	heap   []sqlx.HeapRow
	ranges map[int][]string // col -> canon rows in index order (ties sorted)
}

func idxHistCase(env *core.Env, idx int, prop string) *core.CaseResult {
	r := env.Rand(idx)
	res := core.NewResult()
	p := crashlab.Params{Bias: "loser", MemKB: []int{128, 256, 1024}[r.Intn(3)], MaxOpen: 1 + r.Intn(2), Steps: 50 + r.Intn(60)}
	if env.Thorough() {
		p.Steps = 80 + r.Intn(150)
	}
	// one table, or (every third case) two tables with independently drawn index kinds: a transaction then writes
	// to both, and its abort has to roll back each table's own indexes
	nT := 1
	if idx%3 == 1 {
		nT = 2
	}
	var tds []crashlab.TableDef
	anyBtreeV, allNoV, anyHash, anyBtree := false, true, false, false
	for t := 0; t < nT; t++ {
		td := crashlab.TableDef{Name: []string{"x", "y"}[t], Via: "sql", Idx: []string{"skiplist", "skiplist", "skiplist"}}
		if r.Intn(2) == 0 {
			td.Via = "api"
			td.Idx = []string{[]string{"skiplist", "uniq", "btree"}[r.Intn(3)], []string{"", "skiplist", "btree", "hash"}[r.Intn(4)], []string{"", "skiplist", "btree"}[r.Intn(3)]}
		}
		anyBtreeV = anyBtreeV || td.Idx[2] == "btree"
		allNoV = allNoV && td.Idx[2] == ""
		anyHash = anyHash || td.Idx[1] == "hash"
		anyBtree = anyBtree || td.Idx[0] == "btree" || td.Idx[1] == "btree" || td.Idx[2] == "btree"
		tds = append(tds, td)
	}
	p.MaxPayload = 800
	p.RowSizes = [][]int{{8, 8, 60}, {8, 60, 300}, {60, 300, 800}}[r.Intn(3)]
	if anyBtreeV {
		p.MaxPayload = 20
		p.RowSizes = []int{8, 12, 20}
	} else if allNoV {
		p.MaxPayload = 2500
		p.RowSizes = []int{60, 300, 1200, 2500}
	}
	p.NoUpdate = anyHash
	// every twelfth history: a table several times LARGER THAN THE POOL (60-120 rows of 1.4-2.2 KB in 32-48 frames) and transactions
	// that update or delete every row: the pages a transaction changed are evicted and written while it is still open, its abort
	// has to fetch them again (and what it restores has to survive the next eviction)
	big := idx%12 == 7
	if big {
		tds = []crashlab.TableDef{{Name: "x", Via: "api", Idx: []string{[]string{"skiplist", "uniq"}[r.Intn(2)], []string{"", "skiplist"}[r.Intn(2)], ""}}}
		nT = 1
		p.MemKB = []int{128, 192}[r.Intn(2)]
		p.MaxPayload = 3000
		p.RowSizes = []int{1400, 1700, 2200}
		p.BigTxnRows = 60 + r.Intn(61)
		p.BigTxnDeletes = true
		p.MaxOpen = 1
		p.NoUpdate = false
	}
	p.Tables = tds
	// every sixth history is driven by 3-6 client goroutines on disjoint rows (index maintenance, aborts and node splits
	// of different transactions interleave inside the index containers); audited once, when all clients have finished
	conc := idx%6 == 5 && !big
	if conc {
		p.Clients = 3 + r.Intn(4)
		p.MemKB = []int{256, 512, 1024}[r.Intn(3)]
		p.Steps = p.Steps * 3
		p.ThinkTime = []time.Duration{0, 100 * time.Microsecond}[r.Intn(2)]
	}
	p.File = prop == "C07" && idx%2 == 0 && !conc
	p.CleanShutdown = p.File && idx%4 == 0
	kindSet := map[string]bool{}
	for _, t := range tds {
		kindSet["via-"+t.Via] = true
		for i, k := range t.Idx {
			if k != "" {
				kindSet[fmt.Sprintf("%s-on-%s", k, crashlab.Cols[i].Name)] = true
			}
		}
		res.Seen("index_configurations", strings.Join(t.Idx, "/")+" via "+t.Via)
	}
	var kindTags []string
	for k := range kindSet {
		kindTags = append(kindTags, k)
	}
	if nT > 1 {
		kindTags = append(kindTags, "two-tables")
	}
	if idx%6 == 5 && !big {
		kindTags = append(kindTags, "concurrent-clients")
	}
	if big {
		kindTags = append(kindTags, "table-larger-than-the-pool")
		res.Add("histories_on_a_table_larger_than_the_pool", 1)
	}
	sort.Strings(kindTags)
	prev := map[string]*idxSnap{}
	nPoint := 0
	desc := func(q *crashlab.Quiescent) map[string]any {
		var w []string
		for _, t := range q.Ended {
			out := "commit"
			if t.AbortRet >= 0 {
				out = "abort"
				if t.Conflict {
					out = "conflict-abort"
				}
			}
			w = append(w, fmt.Sprintf("T%d(%s): %s", t.N, out, strings.Join(clipStmts(t.Stmts), " | ")))
		}
		return map[string]any{"seed": env.Seed, "idx": idx, "table": tds, "memKB": p.MemKB, "window": w, "quiescent_point": nPoint}
	}
	var sparseIDs []int32
	audit := func(db *sqlx.DB, td crashlab.TableDef, model []rm.Row, maxID int32, where string, windowTags []string, d map[string]any, hadAbort, lone bool) (*idxSnap, bool) {
		extra := map[int][]rm.Cell{}
		if sparseIDs != nil {
			for _, id := range sparseIDs {
				extra[0] = append(extra[0], rm.Int(id))
			}
		} else {
			for id := int32(1); id <= maxID; id++ {
				extra[0] = append(extra[0], rm.Int(id))
			}
		}
		for k := int32(0); k < 50; k += 7 {
			extra[1] = append(extra[1], rm.Int(k))
		}
		iv := map[int][][2]rm.Cell{}
		for n := 0; n < 4; n++ {
			a, b := int32(r.Intn(int(maxID)+2)), int32(r.Intn(int(maxID)+2))
			if a > b {
				a, b = b, a
			}
			iv[0] = append(iv[0], [2]rm.Cell{rm.Int(a), rm.Int(b)})
			c, e := int32(r.Intn(60)), int32(r.Intn(1000))
			if c > e {
				c, e = e, c
			}
			iv[1] = append(iv[1], [2]rm.Cell{rm.Int(c), rm.Int(e)})
		}
		var problems []string
		var st map[string]int64
		var heap []sqlx.HeapRow
		if msg, panicked := guarded(func() { problems, st, heap = db.IndexAudit(td.Name, td.Idx, extra, iv) }); panicked {
			res.Violate("audit-panic", append(windowTags, kindTags...), d, "%s: index audit panicked: %s", where, msg)
			return nil, false
		}
		for k, v := range st {
			res.Add(k, v)
		}
		res.Add("quiescent_points_audited", 1)
		rows := make([]rm.Row, len(heap))
		for i, h := range heap {
			rows[i] = h.Row
		}
		tags := append(append([]string{}, windowTags...), kindTags...)
		if dd := rm.DiffMultiset(rows, model, nil); dd != "" {
			if prop == "C03" && hadAbort {
				res.Violate("abort-left-trace-in-table", tags, d, "%s: table differs from the committed-state model after a window with an aborted transaction: %s", where, dd)
			} else if prop == "C07" && strings.HasPrefix(where, "after") {
				res.Violate("restart-table-mismatch", tags, d, "%s: table differs from the model: %s", where, dd)
			} else {
				res.Add("live_divergence_without_abort", 1)
			}
			return nil, false
		}
		if len(problems) > 0 {
			if prop == "C07" {
				res.Violate("index-disagrees-with-table", tags, d, "%s: %s", where, strings.Join(problems, "; "))
			} else if hadAbort {
				res.Violate("abort-left-trace-in-index", tags, d, "%s: after a window with an aborted transaction: %s", where, strings.Join(problems, "; "))
			}
			return nil, false
		}
		// SQL point queries on the index path
		for n := 0; n < 3 && len(model) > 0; n++ {
			row := model[r.Intn(len(model))]
			var q sqlx.Result
			sql := fmt.Sprintf("SELECT id, k, v FROM %s WHERE id = %d;", td.Name, row[0].I)
			if msg, panicked := guarded(func() { q = db.Auto(sql) }); panicked || q.Err != nil || q.Aborted || len(q.Rows) != 1 || q.Rows[0].Canon() != row.Canon() {
				k := "index-path-query-wrong"
				if prop == "C03" {
					if !hadAbort {
						continue
					}
					k = "abort-changed-index-query"
				}
				res.Violate(k, tags, d, "%s: %s returned %v (panic=%q err=%v aborted=%v), the table holds %v", where, sql, q.Rows, msg, q.Err, q.Aborted, row)
			}
			res.Add("sql_index_point_queries", 1)
		}
		snap := &idxSnap{heap: heap}
		return snap, true
	}
	var lastQ *crashlab.Quiescent
	p.OnQuiescent = func(q *crashlab.Quiescent) bool {
		nPoint++
		lastQ = q
		sparseIDs = q.IDs
		hadAbort, relocOrKey := false, false
		for _, t := range q.Ended {
			if t.AbortRet >= 0 {
				hadAbort = true
				seen := map[int32]int{}
				for _, op := range t.Ops {
					seen[op.ID]++
					if op.Kind == "upd" && (op.Row[0].I != op.ID) {
						relocOrKey = true
					}
				}
				for _, s := range t.Stmts {
					if strings.Contains(s, "SET v =") {
						relocOrKey = true
					}
				}
				for _, n := range seen {
					if n > 1 {
						relocOrKey = true
					}
				}
			}
		}
		lone := len(q.Ended) == 1 && hadAbort
		var wtags []string
		if hadAbort {
			wtags = append(wtags, "window-with-abort")
			res.Add("windows_with_abort", 1)
		}
		for _, t := range q.Ended {
			if t.Conflict {
				wtags = append(wtags, "conflict-abort")
				res.Add("conflict_aborts_observed", 1)
			}
		}
		d := desc(q)
		for _, td := range tds {
			snap, ok := audit(q.DB, td, q.Model[td.Name], q.MaxID, fmt.Sprintf("quiescent point %d, table %s", nPoint, td.Name), wtags, d, hadAbort, lone)
			if !ok {
				return false
			}
			if prop == "C03" && lone && prev[td.Name] != nil {
				res.Add("lone_abort_snapshots_compared", 1)
				// exact pre-transaction state: same rows at the same row ids
				a, b := snapCanon(prev[td.Name].heap), snapCanon(snap.heap)
				if a != b {
					res.Add("row_ids_changed_by_abort", 1) // values already equal the model; row ids are reported, not judged
				}
			}
			prev[td.Name] = snap
		}
		if hadAbort && nT > 1 {
			for _, t := range q.Ended {
				if t.AbortRet >= 0 {
					tabs := map[string]bool{}
					for _, op := range t.Ops {
						tabs[op.Table] = true
					}
					if len(tabs) > 1 {
						res.Add("aborted_txns_spanning_two_tables", 1)
					}
				}
			}
		}
		if (prop == "C03" && hadAbort && relocOrKey) || (prop == "C07" && hadAbort) {
			res.Nontrivial = true
			res.Add("nontrivial_points", 1)
		}
		return true
	}
	path := fmt.Sprintf("%s/ih_%d", env.TmpDir, idx)
	sqlx.RemoveFiles(path)
	if os.Getenv("VERIF_VERBOSE") != "" {
		fmt.Fprintf(os.Stderr, "idxHistCase %s idx=%d tables=%+v memKB=%d file=%v clean=%v conc=%v steps=%d\n", prop, idx, tds, p.MemKB, p.File, p.CleanShutdown, conc, p.Steps)
	}
	var h *crashlab.History
	var fatal string
	if conc {
		h, fatal = crashlab.RunConcurrent(r, path, p)
		res.Add("concurrent_histories", 1)
	} else {
		h, fatal = crashlab.Run(r, path, p)
	}
	for k, v := range h.Stats {
		res.Add("history_"+k, v)
	}
	if fatal != "" {
		tags := append([]string{"live-panic"}, kindTags...)
		k := "panic-in-history"
		res.Violate(k, tags, map[string]any{"seed": env.Seed, "idx": idx, "table": tds, "statements": tailStr(h.StmtLog, 12)}, "the single-goroutine history panicked: %s", clipStr(fatal, 400))
	}
	// restarts (C07, file-backed runs)
	if prop == "C07" && p.File && fatal == "" && lastQ != nil && h.LiveDiff == "" && h.EndedEarly == "" {
		kind := "crash-like close"
		if p.CleanShutdown {
			kind = "clean shutdown"
		}
		rtags := []string{"restart", strings.ReplaceAll(kind, " ", "-")}
		if anyHash && !p.CleanShutdown {
			rtags = append(rtags, "hash-index-crash-restart")
		}
		db, failure, hung := crashlab.OpenWithTimeout(path, p.MemKB)
		if hung {
			res.RestartChild = true
			res.Violate("restart-hang", append(rtags, kindTags...), map[string]any{"seed": env.Seed, "idx": idx, "table": tds}, "reopen after %s: %s", kind, failure)
		} else if failure != "" {
			res.Violate("restart-panic", append(rtags, kindTags...), map[string]any{"seed": env.Seed, "idx": idx, "table": tds}, "reopen after %s: %s", kind, failure)
		} else {
			res.Add("restarts_audited", 1)
			res.Add("restarts_"+strings.ReplaceAll(kind, " ", "_"), 1)
			allOK := true
			models := map[string][]rm.Row{}
			for _, td := range tds {
				models[td.Name] = finalModel(h, td.Name)
				if _, ok := audit(db, td, models[td.Name], lastQ.MaxID+1000, "after "+kind+" and reopen, table "+td.Name, rtags, map[string]any{"seed": env.Seed, "idx": idx, "table": tds, "memKB": p.MemKB, "restart": kind, "statements": tailStr(h.StmtLog, 10)}, false, false); !ok {
					allOK = false
				}
			}
			// a second restart of the restarted database (half of the file-backed histories): a little more committed work in the
			// session after the first restart, then the other - or the same - kind of close, reopen, and the same audit. The indexes
			// opened here are the ones the FIRST restart rebuilt or re-attached.
			if allOK && idx%8 < 4 {
				var stmts []string
				nextID := lastQ.MaxID + 1
				for _, td := range tds {
					m := models[td.Name]
					for n := 2 + r.Intn(5); n > 0; n-- {
						row := rm.Row{rm.Int(nextID), rm.Int(int32(r.Intn(50))), rm.Str(crashlab.Payload(r, p.RowSizes, p.MaxPayload, fmt.Sprintf("s2r%d.", nextID)))}
						nextID++
						sql, _ := sqlx.InsertSQL(td.Name, crashlab.Cols, []rm.Row{row})
						stmts = append(stmts, clipStr(sql, 80))
						if res2 := db.Auto(sql); res2.Err == nil && !res2.Aborted {
							m = append(m, row)
						} else {
							allOK = false
						}
					}
					for n := r.Intn(4); n > 0 && len(m) > 0; n-- {
						i := r.Intn(len(m))
						sql := fmt.Sprintf("DELETE FROM %s WHERE id = %d;", td.Name, m[i][0].I)
						stmts = append(stmts, sql)
						if res2 := db.Auto(sql); res2.Err == nil && !res2.Aborted {
							m = append(m[:i:i], m[i+1:]...)
						} else {
							allOK = false
						}
					}
					models[td.Name] = m
				}
				kind2 := []string{"clean shutdown", "crash-like close"}[r.Intn(2)]
				if kind == "crash-like close" && r.Intn(3) != 0 {
					kind2 = "clean shutdown"
				}
				chain := kind + ", reopen, " + kind2
				rtags2 := []string{"restart", "second-restart", strings.ReplaceAll(kind2, " ", "-") + "-after-" + strings.ReplaceAll(kind, " ", "-")}
				if anyHash && (!p.CleanShutdown || kind2 == "crash-like close") {
					rtags2 = append(rtags2, "hash-index-crash-restart")
				}
				if anyBtree && !p.CleanShutdown && kind2 == "clean shutdown" {
					rtags2 = append(rtags2, "btree-clean-restart-after-crash-restart")
				}
				if !allOK {
					res.Add("second_restarts_skipped_after_a_refused_statement", 1)
				} else {
					if kind2 == "clean shutdown" {
						guarded(func() { db.S.Shutdown() })
					} else {
						guarded(func() { db.S.ShutdownForTescase() })
					}
					d2 := map[string]any{"seed": env.Seed, "idx": idx, "table": tds, "memKB": p.MemKB, "restart": chain, "statements_between_the_restarts": stmts}
					db2, failure2, hung2 := crashlab.OpenWithTimeout(path, p.MemKB)
					if hung2 {
						res.RestartChild = true
						res.Violate("restart-hang", append(rtags2, kindTags...), d2, "reopen after %s: %s", chain, failure2)
					} else if failure2 != "" {
						res.Violate("restart-panic", append(rtags2, kindTags...), d2, "reopen after %s: %s", chain, failure2)
					} else {
						res.Add("second_restarts_audited", 1)
						res.Add("second_restarts_"+strings.ReplaceAll(kind2, " ", "_")+"_after_"+strings.ReplaceAll(kind, " ", "_"), 1)
						for _, td := range tds {
							audit(db2, td, models[td.Name], nextID+1000, "after "+chain+" and reopen, table "+td.Name, rtags2, d2, false, false)
						}
						guarded(func() { db2.S.ShutdownForTescase() })
					}
					db = nil
				}
			}
			if db != nil {
				guarded(func() { db.S.ShutdownForTescase() })
			}
		}
	}
	sqlx.RemoveFiles(path)
	res.Key = fmt.Sprintf("%s-%d", prop, idx)
	if idx < 2 {
		res.Sample = map[string]any{"table": tds, "memKB": p.MemKB, "statements": tailStr(h.StmtLog, 15)}
	}
	return res
}

func finalModel(h *crashlab.History, table string) []rm.Row {
	base, _, _ := h.Expected(len(h.Events) + 1)
	var out []rm.Row
	for _, r := range base[table] {
		out = append(out, r)
	}
	return out
}

func snapCanon(h []sqlx.HeapRow) string {
	var s []string
	for _, x := range h {
		s = append(s, x.RID+"="+x.Row.Canon())
	}
	sort.Strings(s)
	return strings.Join(s, "\n")
}

func clipStmts(s []string) []string {
	out := make([]string, len(s))
	for i, x := range s {
		out[i] = clipStr(x, 90)
	}
	return out
}

func tailStr(s []string, n int) []string {
	if len(s) > n {
		return s[len(s)-n:]
	}
	return s
}

var _ = rand.Int
