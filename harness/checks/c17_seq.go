package checks

// C17, sequential part: op sequences against the sorted-multimap model, with automatic minimisation of a failing sequence.

import (
	"encoding/json"
	"fmt"
	"math"
	"math/rand"
	"os"
	"sort"
	"strconv"
	"strings"
	"time"

	"verifharness/internal/core"
	im "verifharness/internal/idxmodel"
)

type c17SeqCfg struct {
	Kind         int    `json:"-"`
	KT           int    `json:"-"`
	KindName     string `json:"kind"`
	TypeName     string `json:"key_type"`
	Class        string `json:"class"` // normal | sentinel-key | reinsert-existing
	Frames       int    `json:"pool_frames"`
	TwoCols      bool   `json:"two_columns"`
	NKeys        int    `json:"keys"`
	MaxDup       int    `json:"max_rids_per_key"`
	Cap          int    `json:"max_live_entries"`
	NOps         int    `json:"ops"`
	Batch        int    `json:"batch"`
	AbsentDelete bool   `json:"absent_deletes"`
	StrClass     string `json:"string_lengths,omitempty"`
	WideRids     bool   `json:"wide_row_ids"`
	Updates      bool   `json:"updates"`
}

func (c *c17SeqCfg) tags() []string {
	t := []string{c.KindName, "type-" + c.TypeName, c.KindName + "/" + c.TypeName, "sequential"}
	if c.Class != "normal" {
		t = append(t, c.Class, c.KindName+"/"+c.Class)
	}
	if c.AbsentDelete {
		t = append(t, "absent-delete")
	}
	if c.Frames <= 64 {
		t = append(t, "small-pool")
	}
	if c.StrClass == "long" || c.StrClass == "mixed" {
		t = append(t, "long-keys")
	}
	return t
}

func c17SeqConfig(env *core.Env, idx int) *c17SeqCfg {
	rng := env.Rand(idx)
	combo := (idx + idx/16) % 12 // idx/16: the runner shards by idx % 16; every shard gets every combination
	block, pos := idx/48, idx%48
	class := "normal"
	// the special input classes close every block of 48: quick 12 cases (every combination once), thorough 4 per block
	nSpecial := 12
	if env.Thorough() {
		nSpecial = 4
	}
	if pos >= 48-nSpecial {
		q := block*nSpecial + pos - (48 - nSpecial)
		combo = q % 12
		if (combo%4+q/12)%2 == 1 {
			class = "sentinel-key"
		} else {
			class = "reinsert-existing"
		}
	}
	c := &c17SeqCfg{Kind: combo % 4, KT: combo / 4, Class: class}
	c.KindName, c.TypeName = c17KindNames[c.Kind], c17TypeNames[c.KT]
	c.Frames = []int{40, 64, 256, 1024, 1024}[rng.Intn(5)]
	c.TwoCols = rng.Intn(3) == 0
	c.NKeys = []int{1, 3, 16, 64, 300, 300, 2000}[rng.Intn(7)]
	c.MaxDup = []int{1, 4, 40, 400}[rng.Intn(4)]
	if c.Kind == c17Uniq {
		c.MaxDup = 1
		if c.NKeys < 16 {
			c.NKeys = []int{16, 64, 300}[rng.Intn(3)]
		}
	}
	if c.Kind != c17Uniq && c.NKeys*c.MaxDup < 60 {
		c.MaxDup = 400
	}
	c.Cap = []int{60, 500, 3000}[rng.Intn(3)]
	if env.Thorough() && rng.Intn(4) == 0 {
		c.Cap = 20000
	}
	if c.Kind == c17Hash && c.Cap > c17HashCap {
		c.Cap = c17HashCap
	}
	if c.NKeys*c.MaxDup < c.Cap {
		c.Cap = c.NKeys * c.MaxDup
	}
	c.NOps = 2000 + rng.Intn(4001)
	if env.Thorough() {
		c.NOps = []int{2000, 5000, 5000, 12000, 12000, 25000, 50000}[rng.Intn(7)]
	}
	c.Batch = []int{40, 150, 400}[rng.Intn(3)]
	if c.NOps >= 12000 {
		c.Batch = []int{150, 400, 1000}[rng.Intn(3)]
	}
	c.AbsentDelete = c.Kind != c17Uniq && rng.Intn(3) == 0
	if c.KT == im.KStr {
		if c.Kind == c17Btree {
			c.StrClass = "btree"
		} else {
			c.StrClass = []string{"short", "medium", "long", "mixed"}[rng.Intn(4)]
			if c.StrClass == "long" || c.StrClass == "mixed" {
				// 900-byte keys: 4 entries per node page; keep the page count inside the virtual disk comfortably
				if c.Cap > 3000 {
					c.Cap = 3000
				}
			}
		}
	}
	c.WideRids = rng.Intn(3) == 0
	c.Updates = c.Kind != c17Hash && rng.Intn(4) != 0
	return c
}

// c17Op is one mutation: i(nsert) / d(elete) / u(pdate).
type c17Op struct {
	Op string
	K  int
	R  im.RID
	K2 int
	R2 im.RID
}

func (o c17Op) String() string {
	if o.Op == "u" {
		return fmt.Sprintf("u %d %d %d %d %d %d", o.K, o.R.Page, o.R.Slot, o.K2, o.R2.Page, o.R2.Slot)
	}
	return fmt.Sprintf("%s %d %d %d", o.Op, o.K, o.R.Page, o.R.Slot)
}

func c17ParseOp(s string) (c17Op, error) {
	var o c17Op
	f := strings.Fields(s)
	if len(f) == 0 {
		return o, fmt.Errorf("empty op")
	}
	o.Op = f[0]
	var err error
	if o.Op == "u" {
		_, err = fmt.Sscanf(s, "u %d %d %d %d %d %d", &o.K, &o.R.Page, &o.R.Slot, &o.K2, &o.R2.Page, &o.R2.Slot)
	} else {
		_, err = fmt.Sscanf(s, o.Op+" %d %d %d", &o.K, &o.R.Page, &o.R.Slot)
	}
	return o, err
}

type c17Viol struct {
	Kind   string
	Detail string
	Query  c17Query
}

// c17Query is a lookup: Range=false: ScanKey(K); Range=true: range scan [Lo,Hi] (-1 = nil).
type c17Query struct {
	Range  bool `json:"range"`
	K      int  `json:"k,omitempty"`
	Lo, Hi int
}

// c17Core is what a replay needs.
type c17Core struct {
	Kind, KT int
	Frames   int
	TwoCols  bool
	Class    string
	Absent   bool
}

type c17SeqRun struct {
	core c17Core
	keys []im.Key
	f    *c17Fix
	m    *im.Multimap
	res  *core.CaseResult // may be nil (replays)
}

func c17NewSeqRun(c c17Core, keys []im.Key, res *core.CaseResult) *c17SeqRun {
	return &c17SeqRun{core: c, keys: keys, f: c17NewFix(c.Kind, c.KT, c.Frames, c.TwoCols, keys), m: im.New(keys, c.Kind == c17Uniq), res: res}
}

func (r *c17SeqRun) add(k string, n int64) {
	if r.res != nil {
		r.res.Add(k, n)
	}
}

// valid says whether op keeps inside the case's input class in the current model state (used when replaying a reduced sequence).
func (r *c17SeqRun) valid(o c17Op) bool {
	uniq := r.core.Kind == c17Uniq
	re := r.core.Class == "reinsert-existing"
	switch o.Op {
	case "i":
		if w, live := r.m.Where(o.R); live {
			return re && w == o.K
		}
		if uniq && r.m.Count(o.K) > 0 {
			return re
		}
		return true
	case "d":
		if r.m.Has(o.K, o.R) {
			return true
		}
		if uniq || !r.core.Absent {
			return false
		}
		_, live := r.m.Where(o.R) // an absent delete must not name a row id that lives under another key
		return !live
	case "u":
		if r.core.Kind == c17Hash || !r.m.Has(o.K, o.R) {
			return false
		}
		if _, live := r.m.Where(o.R2); live && o.R2 != o.R {
			return false
		}
		if uniq && o.K2 != o.K && r.m.Count(o.K2) > 0 {
			return false
		}
		if !uniq && o.K2 != o.K && o.R2 == o.R {
			return true
		}
		return true
	}
	return false
}

func (r *c17SeqRun) apply(o c17Op) {
	switch o.Op {
	case "i":
		r.f.insert(o.K, o.R)
		r.m.Insert(o.K, o.R)
	case "d":
		r.f.delete(o.K, o.R)
		r.m.Delete(o.K, o.R)
	case "u":
		r.f.update(o.K, o.R, o.K2, o.R2)
		r.m.Delete(o.K, o.R)
		r.m.Insert(o.K2, o.R2)
	}
}

func (r *c17SeqRun) checkKey(ki int) *c17Viol {
	got := r.f.scanKey(ki)
	r.add("seq_point_lookups", 1)
	want := r.m.Get(ki)
	r.add("seq_point_rids_expected", int64(len(want)))
	if d := im.CompareSet(got, want); !d.Empty() {
		return &c17Viol{Kind: "readback", Query: c17Query{K: ki},
			Detail: fmt.Sprintf("ScanKey(%s) returned %d row ids, the model holds %d: %s", r.keys[ki], len(got), len(want), d)}
	}
	return nil
}

func (r *c17SeqRun) checkRange(lo, hi int) *c17Viol {
	if r.core.Kind == c17Hash {
		return nil
	}
	var lk, hk *im.Key
	if lo >= 0 {
		lk = &r.keys[lo]
	}
	if hi >= 0 {
		hk = &r.keys[hi]
	}
	rows, runaway := r.f.rangeScan(lo, hi, r.m.Len()+1000)
	r.add("seq_range_scans", 1)
	q := c17Query{Range: true, Lo: lo, Hi: hi}
	bs := func(i int) string {
		if i < 0 {
			return "nil"
		}
		return r.keys[i].String()
	}
	name := fmt.Sprintf("range scan [%s, %s]", bs(lo), bs(hi))
	if runaway {
		return &c17Viol{Kind: "range", Query: q, Detail: fmt.Sprintf("%s does not end: more than %d entries for %d stored", name, len(rows)-1, r.m.Len())}
	}
	got := make([]im.RID, len(rows))
	for i := range rows {
		got[i] = rows[i].rid
	}
	d, brk := r.m.CheckRange(got, lk, hk)
	r.add("seq_range_entries_expected", int64(len(got)))
	if !d.Empty() {
		return &c17Viol{Kind: "range", Query: q, Detail: fmt.Sprintf("%s returned %d entries, the model holds %d in the bounds: %s", name, len(got), len(got)+len(d.Missing)-len(d.Extra)-len(d.Dup), d)}
	}
	if brk >= 0 {
		a, _ := r.m.Where(got[brk-1])
		b, _ := r.m.Where(got[brk])
		return &c17Viol{Kind: "range-order", Query: q, Detail: fmt.Sprintf("%s is not in key order at position %d: key %s after key %s", name, brk, r.keys[b], r.keys[a])}
	}
	for i := range rows {
		if rows[i].hasKey {
			ki, _ := r.m.Where(rows[i].rid)
			if im.Compare(rows[i].key, r.keys[ki]) != 0 {
				return &c17Viol{Kind: "range-key", Query: q, Detail: fmt.Sprintf("%s returned row id %v with key %s, it is stored under %s", name, rows[i].rid, rows[i].key, r.keys[ki])}
			}
		}
	}
	return nil
}

func (r *c17SeqRun) checkQuery(q c17Query) *c17Viol {
	if q.Range {
		return r.checkRange(q.Lo, q.Hi)
	}
	return r.checkKey(q.K)
}

// checkAll: every key, the full scan, and a scan from / up to every non-empty key boundary sample.
func (r *c17SeqRun) checkAll() *c17Viol {
	for ki := range r.keys {
		if v := r.checkKey(ki); v != nil {
			return v
		}
	}
	if v := r.checkRange(-1, -1); v != nil {
		return v
	}
	return nil
}

// c17Replay runs ops (skipping those that leave the input class) on a fresh fixture and evaluates the queries plus a full check.
func c17Replay(c c17Core, keys []im.Key, ops []c17Op, queries []c17Query) (v *c17Viol, applied int) {
	defer func() {
		if p := recover(); p != nil {
			v = &c17Viol{Kind: "panic", Detail: "engine panic: " + c17PanicText(p)}
		}
	}()
	r := c17NewSeqRun(c, keys, nil)
	for _, o := range ops {
		if o.K < 0 || o.K >= len(keys) || (o.Op == "u" && (o.K2 < 0 || o.K2 >= len(keys))) || !r.valid(o) {
			continue
		}
		r.apply(o)
		applied++
	}
	for _, q := range queries {
		if v := r.checkQuery(q); v != nil {
			return v, applied
		}
	}
	return r.checkAll(), applied
}

// c17ReplayTimed guards a replay against an engine loop.
func c17ReplayTimed(c c17Core, keys []im.Key, ops []c17Op, queries []c17Query) (v *c17Viol, hung bool) {
	type out struct{ v *c17Viol }
	ch := make(chan out, 1)
	go func() { v, _ := c17Replay(c, keys, ops, queries); ch <- out{v} }()
	select {
	case o := <-ch:
		return o.v, false
	case <-time.After(20 * time.Second):
		return nil, true
	}
}

// c17Minimise shrinks a failing op sequence (delta debugging on chunks) while the same kind of deviation persists.
func c17Minimise(c c17Core, keys []im.Key, ops []c17Op, q []c17Query, kind string) (min []c17Op, replays int, last *c17Viol) {
	fails := func(o []c17Op) *c17Viol {
		replays++
		v, hung := c17ReplayTimed(c, keys, o, q)
		if hung {
			replays = 1 << 30
			return nil
		}
		if v != nil && v.Kind == kind {
			return v
		}
		return nil
	}
	cur := ops
	last = fails(cur)
	if last == nil {
		return nil, replays, nil // does not reproduce from scratch (should not happen: single goroutine)
	}
	budget := 0
	maxReplays, maxBudget := 150, 250_000
	if v := os.Getenv("VERIF_C17_MINIMISE"); v != "" { // triage aid: a larger minimisation budget (only the witness size depends on it)
		if n, err := strconv.Atoi(v); err == nil && n > 0 {
			maxReplays, maxBudget = 150*n, 250_000*n
		}
	}
	for chunk := (len(cur) + 1) / 2; chunk >= 1 && replays < maxReplays && budget < maxBudget; {
		removed := false
		for start := 0; start < len(cur) && replays < maxReplays && budget < maxBudget; {
			end := start + chunk
			if end > len(cur) {
				end = len(cur)
			}
			cand := append(append([]c17Op{}, cur[:start]...), cur[end:]...)
			budget += len(cand)
			if v := fails(cand); v != nil {
				cur, last, removed = cand, v, true
			} else {
				start = end
			}
		}
		if chunk == 1 && !removed {
			break
		}
		if chunk > 1 {
			chunk = (chunk + 1) / 2
		} else if !removed {
			break
		}
	}
	return cur, replays, last
}

// c17Witness: {"mode":"seq", "kind":"skiplist", "key_type":"int", "pool_frames":64, "two_columns":false, "class":"normal",
// "absent_deletes":false, "keys":["i:1",...], "ops":["i 0 1 2",...], "queries":[...]}  or  {"mode":"case","idx":N,"repeat":R}.
type c17WitnessDoc struct {
	Mode     string     `json:"mode"`
	Kind     string     `json:"kind"`
	Type     string     `json:"key_type"`
	Frames   int        `json:"pool_frames"`
	TwoCols  bool       `json:"two_columns"`
	Class    string     `json:"class"`
	Absent   bool       `json:"absent_deletes"`
	Keys     []string   `json:"keys"`
	Ops      []string   `json:"ops"`
	Queries  []c17Query `json:"queries,omitempty"`
	Idx      int        `json:"idx"`
	Seed     int64      `json:"seed,omitempty"`
	Tier     string     `json:"tier,omitempty"`
	Repeat   int        `json:"repeat,omitempty"`
	N        int        `json:"n,omitempty"`
	From     int        `json:"from,omitempty"`
	To       int        `json:"to,omitempty"`
	Rounds   int        `json:"rounds,omitempty"`
	Scanners int        `json:"scanners,omitempty"`
	Procs    int        `json:"gomaxprocs,omitempty"`
	Dups     int        `json:"dups,omitempty"`
	StrLen   int        `json:"string_length,omitempty"`
	Tags     []string   `json:"tags,omitempty"`
}

func c17Witness(env *core.Env, raw json.RawMessage) *core.CaseResult {
	res := core.NewResult()
	var w c17WitnessDoc
	if err := json.Unmarshal(raw, &w); err != nil {
		res.Inconclusive = "bad witness: " + err.Error()
		return res
	}
	if w.Mode == "dup-read" {
		// {"mode":"dup-read","kind":"skiplist","string_length":600,"dups":40,"rounds":5,"scanners":3,"gomaxprocs":4,"repeat":20}
		kind := -1
		for i, n := range c17KindNames {
			if n == w.Kind {
				kind = i
			}
		}
		if kind < 0 || w.Dups < 2 || w.StrLen < 1 || w.StrLen > 900 {
			res.Inconclusive = "bad witness: dup-read parameters"
			return res
		}
		n := max(w.Repeat, 1)
		for i := 0; i < n && len(res.Violations) == 0; i++ {
			r := core.NewResult()
			cc := c17DupRead(kind, w.StrLen, w.Dups, max(w.Rounds, 1), max(w.Scanners, 1), max(w.Procs, 2), int64(i))
			c17ExecConc(cc, int64(i), r, w.Tags, map[string]any{"witness": w, "attempt": i + 1}, false)
			res.Violations = append(res.Violations, r.Violations...)
			for k, v := range r.Stats {
				res.Add(k, v)
			}
		}
		return res
	}
	if w.Mode == "scan-vs-drain" {
		// {"mode":"scan-vs-drain","kind":"btree","key_type":"int","n":600,"from":100,"to":500,"rounds":4,"scanners":2,"gomaxprocs":4,"repeat":10}
		kind, kt := -1, -1
		for i, n := range c17KindNames {
			if n == w.Kind {
				kind = i
			}
		}
		for i, n := range c17TypeNames {
			if n == w.Type {
				kt = i
			}
		}
		if kind < 0 || kt < 0 || w.N < 2 || w.From < 0 || w.To > w.N || w.From >= w.To {
			res.Inconclusive = "bad witness: scan-vs-drain parameters"
			return res
		}
		n := w.Repeat
		if n < 1 {
			n = 1
		}
		for i := 0; i < n && len(res.Violations) == 0; i++ {
			r := core.NewResult()
			cc := c17ScanVsDrain(kind, kt, w.N, w.From, w.To, max(w.Rounds, 1), max(w.Scanners, 1), max(w.Procs, 2))
			c17ExecConc(cc, int64(i), r, w.Tags, map[string]any{"witness": w, "attempt": i + 1}, false)
			res.Violations = append(res.Violations, r.Violations...)
			for k, v := range r.Stats {
				res.Add(k, v)
			}
		}
		return res
	}
	if w.Mode == "case" {
		n := w.Repeat
		if n < 1 {
			n = 1
		}
		e2 := *env // the case is a function of (seed, tier, idx): a witness may pin all three
		if w.Seed != 0 {
			e2.Seed = w.Seed
		}
		if w.Tier != "" {
			e2.Tier = w.Tier
		}
		for i := 0; i < n && len(res.Violations) == 0; i++ {
			r := c17Run(&e2, w.Idx)
			res.Violations = append(res.Violations, r.Violations...)
		}
		return res
	}
	c := c17Core{Frames: w.Frames, TwoCols: w.TwoCols, Class: w.Class, Absent: w.Absent, Kind: -1, KT: -1}
	for i, n := range c17KindNames {
		if n == w.Kind {
			c.Kind = i
		}
	}
	for i, n := range c17TypeNames {
		if n == w.Type {
			c.KT = i
		}
	}
	if c.Kind < 0 || c.KT < 0 {
		res.Inconclusive = "bad witness: kind / key_type"
		return res
	}
	var keys []im.Key
	for _, s := range w.Keys {
		k, err := c17ParseKey(s)
		if err != nil {
			res.Inconclusive = "bad witness key: " + err.Error()
			return res
		}
		keys = append(keys, k)
	}
	var ops []c17Op
	for _, s := range w.Ops {
		o, err := c17ParseOp(s)
		if err != nil {
			res.Inconclusive = "bad witness op: " + err.Error()
			return res
		}
		ops = append(ops, o)
	}
	v, hung := c17ReplayTimed(c, keys, ops, w.Queries)
	if hung {
		res.Violate("hang", w.Tags, w, "the witness sequence does not return")
	} else if v != nil {
		res.Violate(v.Kind, w.Tags, w, "%s", v.Detail)
	}
	return res
}

// ---------------------------------------------------------------------------------------------
// generator

type c17Gen struct {
	cfg   *c17SeqCfg
	rng   *rand.Rand
	m     *im.Multimap
	ins   []int // insertable key indexes
	live  []im.Entry
	pos   map[im.RID]int
	mode  string
	left  int
	cur   int // cursor of the sweeping modes
	hot   []int
	dead  []im.RID // row ids of removed entries (slot re-use)
	nPage int32
	// what the last generated op was (for the counters)
	lastAbsent, lastReinsert bool
}

func (g *c17Gen) addLive(e im.Entry) { g.pos[e.Rid] = len(g.live); g.live = append(g.live, e) }
func (g *c17Gen) dropLive(r im.RID) {
	i, ok := g.pos[r]
	if !ok {
		return
	}
	last := g.live[len(g.live)-1]
	g.live[i] = last
	g.pos[last.Rid] = i
	g.live = g.live[:len(g.live)-1]
	delete(g.pos, r)
	if len(g.dead) < 200 {
		g.dead = append(g.dead, r)
	} else {
		g.dead[g.rng.Intn(len(g.dead))] = r
	}
}

func (g *c17Gen) freshRid() im.RID {
	for {
		var r im.RID
		switch {
		case len(g.dead) > 0 && g.rng.Intn(4) == 0: // re-use the row id of a removed entry
			r = g.dead[g.rng.Intn(len(g.dead))]
		case g.cfg.WideRids && g.rng.Intn(3) == 0:
			r = im.RID{Page: int32(g.rng.Int63n(math.MaxInt32 - 1)), Slot: g.rng.Uint32()}
			if r.Slot == math.MaxUint32 {
				r.Slot--
			}
		case g.rng.Intn(2) == 0: // heap-like: consecutive slots of consecutive pages
			g.nPage++
			r = im.RID{Page: g.nPage / 30, Slot: uint32(g.nPage % 30)}
		default:
			r = im.RID{Page: int32(g.rng.Intn(400)), Slot: uint32(g.rng.Intn(80))}
		}
		if g.cfg.Kind == c17Btree {
			r.Slot &= 0xffff
		}
		if _, live := g.m.Where(r); !live {
			return r
		}
	}
}

func (g *c17Gen) newPhase() {
	modes := []string{"grow", "grow", "shrink", "steady", "steady", "drain-asc", "drain-desc", "drain-random", "burst-dup", "sweep-asc", "sweep-desc"}
	g.mode = modes[g.rng.Intn(len(modes))]
	g.left = 30 + g.rng.Intn(1+g.cfg.NOps/6)
	switch g.mode {
	case "drain-asc", "sweep-asc":
		g.cur = 0
	case "drain-desc", "sweep-desc":
		g.cur = len(g.ins) - 1
	case "burst-dup":
		g.hot = g.hot[:0]
		for i := 0; i < 1+g.rng.Intn(3); i++ {
			g.hot = append(g.hot, g.ins[g.rng.Intn(len(g.ins))])
		}
	}
}

// pickInsertKey returns a key that can take one more row id, or -1.
func (g *c17Gen) pickInsertKey() int {
	try := func(ki int) bool { return g.m.Count(ki) < g.cfg.MaxDup }
	switch g.mode {
	case "burst-dup":
		ki := g.hot[g.rng.Intn(len(g.hot))]
		if try(ki) {
			return ki
		}
	case "sweep-asc":
		for n := 0; n < len(g.ins); n++ {
			ki := g.ins[g.cur%len(g.ins)]
			g.cur++
			if try(ki) {
				return ki
			}
		}
	case "sweep-desc":
		for n := 0; n < len(g.ins); n++ {
			if g.cur < 0 {
				g.cur = len(g.ins) - 1
			}
			ki := g.ins[g.cur]
			g.cur--
			if try(ki) {
				return ki
			}
		}
	}
	for n := 0; n < 30; n++ {
		ki := g.ins[g.rng.Intn(len(g.ins))]
		if try(ki) {
			return ki
		}
	}
	for _, ki := range g.ins {
		if try(ki) {
			return ki
		}
	}
	return -1
}

func (g *c17Gen) pickVictim() (im.Entry, bool) {
	if len(g.live) == 0 {
		return im.Entry{}, false
	}
	switch g.mode {
	case "drain-asc":
		for g.cur < len(g.ins) && g.m.Count(g.ins[g.cur]) == 0 {
			g.cur++
		}
		if g.cur < len(g.ins) {
			r, _ := g.m.AnyRid(g.ins[g.cur], g.rng.Intn(1<<20))
			return im.Entry{Ki: g.ins[g.cur], Rid: r}, true
		}
	case "drain-desc":
		for g.cur >= 0 && g.m.Count(g.ins[g.cur]) == 0 {
			g.cur--
		}
		if g.cur >= 0 {
			r, _ := g.m.AnyRid(g.ins[g.cur], g.rng.Intn(1<<20))
			return im.Entry{Ki: g.ins[g.cur], Rid: r}, true
		}
	}
	return g.live[g.rng.Intn(len(g.live))], true
}

func (g *c17Gen) next() c17Op {
	g.lastAbsent, g.lastReinsert = false, false
	for {
		if g.left <= 0 {
			g.newPhase()
		}
		g.left--
		pIns := 0.5
		switch g.mode {
		case "grow", "burst-dup", "sweep-asc", "sweep-desc":
			pIns = 0.85
		case "shrink":
			pIns = 0.15
		case "drain-asc", "drain-desc", "drain-random":
			pIns = 0.03
		}
		if g.m.Len() >= g.cfg.Cap {
			pIns = 0
			if g.mode == "grow" || g.mode == "burst-dup" || g.mode == "sweep-asc" || g.mode == "sweep-desc" {
				g.left = 0
				continue
			}
		}
		if g.m.Len() == 0 && pIns < 0.5 {
			g.left = 0
			g.mode = "grow"
			g.left = 50 + g.rng.Intn(300)
			pIns = 1
		}
		x := g.rng.Float64()
		// special classes
		if g.cfg.Class == "reinsert-existing" && len(g.live) > 0 && g.rng.Intn(12) == 0 {
			e := g.live[g.rng.Intn(len(g.live))]
			g.lastReinsert = true
			if g.cfg.Kind == c17Uniq && g.rng.Intn(2) == 0 {
				return c17Op{Op: "i", K: e.Ki, R: g.freshRid()} // unique index: the key's row id is replaced
			}
			return c17Op{Op: "i", K: e.Ki, R: e.Rid}
		}
		if g.cfg.AbsentDelete && g.rng.Intn(40) == 0 {
			ki := g.ins[g.rng.Intn(len(g.ins))]
			g.lastAbsent = true
			return c17Op{Op: "d", K: ki, R: g.freshRid()}
		}
		if g.cfg.Updates && len(g.live) > 0 && g.rng.Intn(6) == 0 {
			e, _ := g.pickVictim()
			o := c17Op{Op: "u", K: e.Ki, R: e.Rid, K2: e.Ki, R2: e.Rid}
			self := false
			switch g.rng.Intn(4) {
			case 3: // the entry is replaced by itself (what an UPDATE assigning an indexed column its old value does, in place)
				self = true
			case 0: // relocation: same key, new row id
				o.R2 = g.freshRid()
			case 1: // key change, same row id
				o.K2 = g.ins[g.rng.Intn(len(g.ins))]
			default:
				o.K2 = g.ins[g.rng.Intn(len(g.ins))]
				o.R2 = g.freshRid()
			}
			if o.K2 != o.K && g.m.Count(o.K2) >= g.cfg.MaxDup {
				o.K2 = o.K
			}
			if o.K2 == o.K && o.R2 == o.R && !self {
				o.R2 = g.freshRid()
			}
			return o
		}
		if x < pIns {
			ki := g.pickInsertKey()
			if ki < 0 {
				g.left = 0
				g.mode = "shrink"
				g.left = 100
				continue
			}
			return c17Op{Op: "i", K: ki, R: g.freshRid()}
		}
		if e, ok := g.pickVictim(); ok {
			return c17Op{Op: "d", K: e.Ki, R: e.Rid}
		}
	}
}

func (g *c17Gen) applied(o c17Op) {
	switch o.Op {
	case "i":
		// rebuild from the model: a unique insert may have replaced a row id
		if g.cfg.Kind == c17Uniq {
			for i := len(g.live) - 1; i >= 0; i-- {
				if g.live[i].Ki == o.K && g.live[i].Rid != o.R {
					g.dropLive(g.live[i].Rid)
				}
			}
		}
		if _, ok := g.pos[o.R]; !ok {
			g.addLive(im.Entry{Ki: o.K, Rid: o.R})
		}
	case "d":
		g.dropLive(o.R)
	case "u":
		g.dropLive(o.R)
		g.addLive(im.Entry{Ki: o.K2, Rid: o.R2})
	}
}

// ---------------------------------------------------------------------------------------------

func c17Seq(env *core.Env, idx int, res *core.CaseResult) {
	cfg := c17SeqConfig(env, idx)
	rng := env.Rand(idx + 1_000_003)
	tags := cfg.tags()
	res.Key = "seq-" + c17CfgHash([]any{cfg, env.Seed, idx})
	res.Seen("kinds_x_types", cfg.KindName+"/"+cfg.TypeName)
	res.Seen("classes", cfg.Class)
	res.Add("seq_cases_"+cfg.Class, 1)

	// keys: insertable ones + probe keys that are never inserted (absent lookups, range bounds between stored keys)
	insKeys := c17GenKeys(rng, cfg.Kind, cfg.KT, cfg.NKeys, cfg.StrClass)
	if cfg.Class == "sentinel-key" {
		insKeys = append(insKeys, c17Sentinels(cfg.Kind, cfg.KT)...)
	}
	probes := c17GenKeys(rng, cfg.Kind, cfg.KT, 6+cfg.NKeys/8, cfg.StrClass)
	isIns := map[string]bool{}
	for _, k := range insKeys {
		isIns[c17KeyJSON(k)] = true
	}
	keys := im.SortKeys(append(append([]im.Key{}, insKeys...), probes...))
	var ins []int
	for i, k := range keys {
		if isIns[c17KeyJSON(k)] {
			ins = append(ins, i)
		}
	}
	cc := c17Core{Kind: cfg.Kind, KT: cfg.KT, Frames: cfg.Frames, TwoCols: cfg.TwoCols, Class: cfg.Class, Absent: cfg.AbsentDelete}

	var ops []c17Op
	var run *c17SeqRun
	var viol *c17Viol
	var failQ []c17Query
	maxRemoved := int64(0)
	nVerify := 0
	func() {
		defer func() {
			if p := recover(); p != nil {
				viol = &c17Viol{Kind: "panic", Detail: fmt.Sprintf("engine panic at op %d (%s): %s", len(ops), c17LastOp(ops), c17PanicText(p))}
			}
		}()
		run = c17NewSeqRun(cc, keys, res)
		g := &c17Gen{cfg: cfg, rng: rng, m: run.m, ins: ins, pos: map[im.RID]int{}}
		touched := map[int]bool{}
		verify := func() *c17Viol {
			nVerify++
			var tk []int
			for k := range touched {
				tk = append(tk, k)
			}
			sort.Ints(tk)
			for _, k := range tk {
				if v := run.checkKey(k); v != nil {
					return v
				}
			}
			res.Add("seq_touched_key_lookups", int64(len(tk)))
			for i := 0; i < 20; i++ { // untouched keys, stored or not (probe keys are never stored)
				k := rng.Intn(len(keys))
				if touched[k] {
					continue
				}
				res.Add("seq_untouched_key_lookups", 1)
				if v := run.checkKey(k); v != nil {
					return v
				}
			}
			touched = map[int]bool{}
			if cfg.Kind != c17Hash {
				wide := 2
				if run.m.Len() > 2000 {
					wide = 1
				}
				for i := 0; i < wide+4; i++ {
					lo, hi := rng.Intn(len(keys)), rng.Intn(len(keys))
					if i >= wide { // narrow window: a few neighbouring keys
						hi = lo + rng.Intn(8)
						if hi >= len(keys) {
							hi = len(keys) - 1
						}
						if rng.Intn(3) == 0 {
							hi = lo
						}
					} else if lo > hi && rng.Intn(4) != 0 {
						lo, hi = hi, lo
					}
					if rng.Intn(6) == 0 {
						switch rng.Intn(3) {
						case 0:
							lo = -1
						case 1:
							hi = -1
						default:
							if nVerify%4 == 0 || run.m.Len() < 500 {
								lo, hi = -1, -1
							}
						}
					}
					if lo < 0 || hi < 0 {
						res.Add("seq_range_scans_nil_bound", 1)
					}
					if v := run.checkRange(lo, hi); v != nil {
						return v
					}
				}
			}
			if cfg.Kind != c17Btree { // quiescent: single goroutine
				if n := run.f.removedPages(); n > maxRemoved {
					maxRemoved = n
				}
			}
			return nil
		}
		for len(ops) < cfg.NOps {
			o := g.next()
			ops = append(ops, o)
			run.apply(o)
			g.applied(o)
			res.Add("seq_ops", 1)
			res.Add("seq_ops_"+o.Op, 1)
			if g.lastAbsent {
				res.Add("seq_absent_deletes", 1)
			}
			if g.lastReinsert {
				res.Add("seq_reinserts", 1)
			}
			touched[o.K] = true
			if o.Op == "u" {
				touched[o.K2] = true
			}
			if len(ops)%cfg.Batch == 0 || len(ops) == cfg.NOps {
				if viol = verify(); viol != nil {
					failQ = []c17Query{viol.Query}
					return
				}
			}
		}
		if viol = run.checkAll(); viol != nil {
			failQ = []c17Query{viol.Query}
		}
	}()
	res.Add("seq_verification_rounds", int64(nVerify))
	if run != nil && run.f != nil {
		splits, removals := run.f.allocated(), maxRemoved
		if cfg.Kind == c17Btree && viol == nil {
			func() {
				defer func() {
					if p := recover(); p != nil {
						viol = &c17Viol{Kind: "panic", Detail: "engine panic while the B-tree writes its pages to the pool: " + c17PanicText(p)}
					}
				}()
				// new B-link tree pages take a pool page when they are created; freed ones are handed back when the tree is written out
				_, freed := run.f.closeBtree()
				removals = freed
			}()
		}
		if cfg.Kind == c17Hash {
			// no nodes: the interesting structure change is the re-use of freed slots
			if res.Stats["seq_ops_d"] > 0 && res.Stats["seq_ops_i"] > res.Stats["seq_ops_d"]/2 {
				res.Nontrivial = true
			}
			res.Add("hash_cases", 1)
		} else {
			res.Add("node_splits_seen", splits)
			res.Add("node_removals_seen", removals)
			if splits >= 1 && removals >= 1 {
				res.Nontrivial = true
			}
		}
		if res.Nontrivial {
			res.Add("seq_cases_nontrivial", 1)
		}
	}
	if idx < 3 {
		n := len(ops)
		if n > 12 {
			n = 12
		}
		var first []string
		for _, o := range ops[:n] {
			first = append(first, o.String())
		}
		res.Sample = map[string]any{"config": cfg, "keys_total": len(keys), "first_keys": c17KeyList(keys, 5), "first_ops": first}
	}
	if viol == nil {
		return
	}
	// minimise
	desc := map[string]any{"mode": "seq", "kind": cfg.KindName, "key_type": cfg.TypeName, "pool_frames": cfg.Frames, "two_columns": cfg.TwoCols, "class": cfg.Class,
		"absent_deletes": cfg.AbsentDelete, "tags": tags, "seed": env.Seed, "tier": env.Tier, "idx": idx, "ops_until_detection": len(ops)}
	if p := os.Getenv("VERIF_C17_DUMP"); p != "" { // triage aid: the unminimised sequence as a witness document
		var ks, os_ []string
		for _, k := range keys {
			ks = append(ks, c17KeyJSON(k))
		}
		for _, o := range ops {
			os_ = append(os_, o.String())
		}
		b, _ := json.Marshal(map[string]any{"mode": "seq", "kind": cfg.KindName, "key_type": cfg.TypeName, "pool_frames": cfg.Frames, "two_columns": cfg.TwoCols, "class": cfg.Class,
			"absent_deletes": cfg.AbsentDelete, "keys": ks, "ops": os_, "queries": failQ, "tags": tags})
		os.WriteFile(p, b, 0644)
	}
	min, replays, mv := c17Minimise(cc, keys, ops, failQ, viol.Kind)
	if min == nil {
		desc["note"] = "the sequence did not reproduce on a fresh index during minimisation; the tail of the original sequence is given"
		t := ops
		if len(t) > 40 {
			t = t[len(t)-40:]
		}
		var ts []string
		for _, o := range t {
			ts = append(ts, o.String())
		}
		desc["last_ops"] = ts
		desc["keys_total"] = len(keys)
		res.Violate(viol.Kind, tags, desc, "%s", viol.Detail)
		return
	}
	// compact the key list to the keys used
	used := map[int]bool{}
	for _, o := range min {
		used[o.K] = true
		if o.Op == "u" {
			used[o.K2] = true
		}
	}
	qs := failQ
	if mv != nil {
		qs = []c17Query{mv.Query}
	}
	for _, q := range qs {
		if q.Range {
			if q.Lo >= 0 {
				used[q.Lo] = true
			}
			if q.Hi >= 0 {
				used[q.Hi] = true
			}
		} else {
			used[q.K] = true
		}
	}
	remap := map[int]int{-1: -1}
	var ck []im.Key
	for i := range keys {
		if used[i] {
			remap[i] = len(ck)
			ck = append(ck, keys[i])
		}
	}
	cops := make([]c17Op, len(min))
	for i, o := range min {
		o.K = remap[o.K]
		if o.Op == "u" {
			o.K2 = remap[o.K2]
		}
		cops[i] = o
	}
	var cq []c17Query
	for _, q := range qs {
		if q.Range {
			cq = append(cq, c17Query{Range: true, Lo: remap[q.Lo], Hi: remap[q.Hi]})
		} else {
			cq = append(cq, c17Query{K: remap[q.K]})
		}
	}
	final := mv
	if v2, hung := c17ReplayTimed(cc, ck, cops, cq); !hung && v2 != nil && v2.Kind == viol.Kind {
		final = v2
		var ks, os []string
		for _, k := range ck {
			ks = append(ks, c17KeyJSON(k))
		}
		for _, o := range cops {
			os = append(os, o.String())
		}
		if len(os) > 400 {
			desc["ops_total"] = len(os)
			os = os[:400]
		}
		desc["keys"], desc["ops"], desc["queries"] = ks, os, cq
	} else {
		// the compacted key list changes the behaviour: keep the full key list
		var ks, os []string
		for _, k := range keys {
			ks = append(ks, c17KeyJSON(k))
		}
		for _, o := range min {
			os = append(os, o.String())
		}
		if len(os) > 400 {
			desc["ops_total"] = len(os)
			os = os[:400]
		}
		desc["keys"], desc["ops"], desc["queries"] = ks, os, qs
	}
	desc["minimised_from_ops"] = len(ops)
	desc["replays"] = replays
	res.Violate(viol.Kind, tags, desc, "%s  [minimised witness: %d ops: %s]", viol.Detail, len(min), final.Detail)
}

func c17LastOp(ops []c17Op) string {
	if len(ops) == 0 {
		return "index construction"
	}
	return ops[len(ops)-1].String()
}

func c17KeyList(keys []im.Key, n int) []string {
	var out []string
	for i, k := range keys {
		if i >= n {
			break
		}
		s := c17KeyJSON(k)
		if len(s) > 60 {
			s = s[:60] + "..."
		}
		out = append(out, s)
	}
	return out
}
