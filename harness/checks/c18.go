package checks

// C18 - index key encoding preserves order and round-trips; row ids pack losslessly.
// Exported functions of samehada_util only. Integers and non-NaN floats are walked IN ORDER: adjacent strict
// monotonicity over a total order implies the order property for all pairs, so the thorough tier decides the
// all-pairs statement for both numeric domains with 2^32 steps each (exhaustive); the quick tier walks a strided
// subset plus every block seam and boundary. Strings: adversarial set, all pairs. Row ids: structured + random.

import (
	"bytes"
	"fmt"
	"math"
	"strings"

	"github.com/ryogrid/SamehadaDB/lib/samehada/samehada_util"
	"github.com/ryogrid/SamehadaDB/lib/storage/page"
	"github.com/ryogrid/SamehadaDB/lib/types"

	"verifharness/internal/core"
	im "verifharness/internal/idxmodel"
)

const (
	c18IntBlocks   = 256 // 2^24 integers each
	c18FloatN      = 0x7F800001
	c18FloatBlocks = 256
	c18StrCases    = 16
	c18RidCases    = 16
	c18IdxRidCases = 9 // {skip list, B-tree, unique skip list} x {int, float, varchar}: row ids at the limits through the REAL index wrappers
)

var (
	c18RidMin = page.RID{PageID: 0, SlotNum: 0}
	c18RidMax = page.RID{PageID: math.MaxInt32, SlotNum: math.MaxUint32}
)

func c18enc(v types.Value, rid *page.RID) []byte {
	e := samehada_util.EncodeValueAndRIDToDicOrderComparableVarchar(&v, rid)
	return []byte(e.ToVarchar())
}

// floatAt maps a position in numeric order (0 = -Inf ... 2N-1 = +Inf) to the float32 with that rank.
func c18floatAt(n uint64) float32 {
	if n < c18FloatN {
		return math.Float32frombits(uint32(0xFF800000 - n))
	}
	return math.Float32frombits(uint32(n - c18FloatN))
}

func init() {
	core.Register(&core.Check{
		ID:    "C18",
		Level: "exploration",
		Rule: "cases are blocks of the value space: 256 blocks of all int32 in order, 256 blocks of all non-NaN float32 in numeric order " +
			"(thorough: every value, exhaustive; quick: every 4099th value plus all block seams and boundaries), adversarial string sets (all pairs), row-id sets. " +
			"Per value: decode(encode(v,rid))==v, encode(v,ridMax) < encode(next(v),ridMin) bytewise (adjacent strict monotonicity => all pairs), " +
			"encode(v,ridMin) <= encode(v,rid) <= encode(v,ridMax). Nine more cases store row ids at the limits of the domain (page ids 0..2^31-1 around every byte boundary, slots 0..65535) through the real " +
			"skip-list / B-tree / unique skip-list index wrappers and demand them back exactly from ScanKey and from a full range scan in which equal keys stay adjacent, before and after deleting half of the entries by (key,row id). Non-trivial = block containing a sign change, exponent change or byte-carry boundary between adjacent values; distinct by block id",
		Assumptions: []string{"byte-wise comparison of the encoded key is what the index containers use (Go string comparison of the Varchar value)", "NaN keys and strings containing NUL bytes are outside the property's domain"},
		NumCases:    func(env *core.Env) int { return c18IntBlocks + c18FloatBlocks + c18StrCases + c18RidCases + c18IdxRidCases },
		RunCase:     c18Run,
		Extra: func(env *core.Env, agg *core.Aggregate) map[string]any {
			return map[string]any{"exhaustive": env.Thorough(), "exhaustive_scope": "all int32 and all non-NaN float32 (thorough tier only); strings and row ids are sampled"}
		},
	})
}

func c18Run(env *core.Env, idx int) *core.CaseResult {
	res := core.NewResult()
	switch {
	case idx < c18IntBlocks:
		c18Ints(env, idx, res)
	case idx < c18IntBlocks+c18FloatBlocks:
		c18Floats(env, idx-c18IntBlocks, res)
	case idx < c18IntBlocks+c18FloatBlocks+c18StrCases:
		c18Strings(env, idx-c18IntBlocks-c18FloatBlocks, idx, res)
	case idx < c18IntBlocks+c18FloatBlocks+c18StrCases+c18RidCases:
		c18Rids(env, idx-c18IntBlocks-c18FloatBlocks-c18StrCases, idx, res)
	default:
		c18IndexRids(env, idx-c18IntBlocks-c18FloatBlocks-c18StrCases-c18RidCases, idx, res)
	}
	return res
}

func c18step(env *core.Env) int64 {
	if env.Thorough() {
		return 1
	}
	return 4099
}

func c18Ints(env *core.Env, blk int, res *core.CaseResult) {
	lo := int64(math.MinInt32) + int64(blk)<<24
	hi := lo + 1<<24 // exclusive; pair (hi-1, hi) is the seam and is checked here
	step := c18step(env)
	rng := env.Rand(blk)
	check := func(i int64) {
		v := types.NewInteger(int32(i))
		rid := page.RID{PageID: types.PageID(rng.Int31()), SlotNum: rng.Uint32()}
		e := samehada_util.EncodeValueAndRIDToDicOrderComparableVarchar(&v, &rid)
		d := samehada_util.ExtractOrgKeyFromDicOrderComparableEncodedVarchar(e, types.Integer)
		res.Add("int_values", 1)
		if d.ValueType() != types.Integer || d.ToInteger() != int32(i) {
			res.Violate("roundtrip", nil, map[string]any{"int": i, "rid": rid}, "integer %d decodes to %v", i, d.ToIFValue())
		}
		eb := []byte(e.ToVarchar())
		d2 := samehada_util.ExtractOrgKeyFromDicOrderComparableEncodedBytes(append([]byte{0, 12, 0}, eb...), types.Integer)
		if d2.ToInteger() != int32(i) {
			res.Violate("roundtrip", nil, map[string]any{"int": i}, "integer %d decodes (bytes form) to %v", i, d2.ToIFValue())
		}
		emin, emax := c18enc(v, &c18RidMin), c18enc(v, &c18RidMax)
		if bytes.Compare(emin, eb) > 0 || bytes.Compare(eb, emax) > 0 {
			res.Violate("adjacency", nil, map[string]any{"int": i, "rid": rid}, "entry of key %d with rid %v is outside [key+ridMin, key+ridMax]", i, rid)
		}
		if i < math.MaxInt32 {
			nx := c18enc(types.NewInteger(int32(i+1)), &c18RidMin)
			res.Add("int_adjacent_pairs", 1)
			if bytes.Compare(emax, nx) >= 0 {
				res.Violate("order", nil, map[string]any{"int": i}, "encode(%d,ridMax) >= encode(%d,ridMin)", i, i+1)
			}
			if (i+1)&0xff == 0 || i == -1 {
				res.Add("int_carry_or_sign_pairs", 1)
				res.Nontrivial = true
			}
		}
	}
	for i := lo; i < hi; i += step {
		check(i)
	}
	for _, i := range []int64{lo, lo + 1, hi - 2, hi - 1, -1, 0, 1, math.MaxInt32, math.MinInt32, math.MaxInt32 - 1, math.MinInt32 + 1} {
		if i >= lo && i < hi {
			check(i)
		}
	}
	res.Key = fmt.Sprintf("int-block-%d", blk)
	if blk == 0 {
		res.Sample = map[string]any{"kind": "int block", "from": lo, "to": hi - 1, "step": step,
			"example": map[string]any{"value": lo, "encoded_hex": fmt.Sprintf("%x", c18enc(types.NewInteger(int32(lo)), &c18RidMax))}}
	}
}

func c18Floats(env *core.Env, blk int, res *core.CaseResult) {
	total := uint64(2 * c18FloatN)
	per := (total + c18FloatBlocks - 1) / c18FloatBlocks
	lo := uint64(blk) * per
	hi := lo + per
	if hi > total {
		hi = total
	}
	step := uint64(c18step(env))
	rng := env.Rand(1000 + blk)
	check := func(n uint64) {
		f := c18floatAt(n)
		v := types.NewFloat(f)
		rid := page.RID{PageID: types.PageID(rng.Int31()), SlotNum: rng.Uint32()}
		e := samehada_util.EncodeValueAndRIDToDicOrderComparableVarchar(&v, &rid)
		d := samehada_util.ExtractOrgKeyFromDicOrderComparableEncodedVarchar(e, types.Float)
		res.Add("float_values", 1)
		if d.ValueType() != types.Float || d.ToFloat() != f {
			res.Violate("roundtrip", nil, map[string]any{"float_bits": math.Float32bits(f)}, "float %g (bits %08x) decodes to %v", f, math.Float32bits(f), d.ToIFValue())
		}
		eb := []byte(e.ToVarchar())
		emin, emax := c18enc(v, &c18RidMin), c18enc(v, &c18RidMax)
		if bytes.Compare(emin, eb) > 0 || bytes.Compare(eb, emax) > 0 {
			res.Violate("adjacency", nil, map[string]any{"float_bits": math.Float32bits(f), "rid": rid}, "entry of key %g with rid %v is outside [key+ridMin, key+ridMax]", f, rid)
		}
		if n+1 < total {
			g := c18floatAt(n + 1)
			nx := c18enc(types.NewFloat(g), &c18RidMin)
			res.Add("float_adjacent_pairs", 1)
			if f == g { // -0 / +0
				if !bytes.Equal(emin, nx) {
					res.Violate("order", nil, map[string]any{"float_bits": math.Float32bits(f)}, "-0 and +0 compare equal but encode differently")
				}
				res.Nontrivial = true
				res.Add("float_signed_zero_pairs", 1)
			} else if bytes.Compare(emax, nx) >= 0 {
				res.Violate("order", nil, map[string]any{"float_bits": math.Float32bits(f)}, "encode(%g,ridMax) >= encode(%g,ridMin) (bits %08x, %08x)", f, g, math.Float32bits(f), math.Float32bits(g))
			}
			if math.Float32bits(f)>>23 != math.Float32bits(g)>>23 {
				res.Add("float_exponent_or_sign_pairs", 1)
				res.Nontrivial = true
			}
		}
	}
	for n := lo; n < hi; n += step {
		check(n)
	}
	edge := []uint64{lo, lo + 1, hi - 2, hi - 1, 0, 1, total - 2, total - 1, c18FloatN - 2, c18FloatN - 1, c18FloatN, c18FloatN + 1,
		c18FloatN + 0x007FFFFF, c18FloatN + 0x00800000, c18FloatN - 1 - 0x007FFFFF, c18FloatN - 1 - 0x00800000, // denormal / normal border
		c18FloatN + 0x7F7FFFFF, c18FloatN - 1 - 0x7F7FFFFF} // +-MaxFloat32 (the in-band sentinels of types.Value)
	for e := uint64(1); e <= 255; e++ { // every exponent boundary, both signs
		edge = append(edge, c18FloatN+(e<<23)-1, c18FloatN+(e<<23), c18FloatN-1-(e<<23), c18FloatN-(e<<23))
	}
	for _, n := range edge {
		if n >= lo && n < hi {
			check(n)
		}
	}
	res.Key = fmt.Sprintf("float-block-%d", blk)
	if blk == 0 {
		res.Sample = map[string]any{"kind": "float block", "from_rank": lo, "to_rank": hi - 1, "first_value": fmt.Sprint(c18floatAt(lo)), "last_value": fmt.Sprint(c18floatAt(hi - 1)), "step": step}
	}
}

func c18StringSet(env *core.Env, k int) []string {
	rng := env.Rand(5000 + k)
	set := map[string]bool{"": true, "SamehadaDBInfMinValue": true, "SamehadaDBInfMaxValue": true, "SamehadaDBInfMaxValue0": true, "SamehadaDBInfMinValu": true}
	for b := 1; b < 256; b++ {
		set[string([]byte{byte(b)})] = true
	}
	alpha := []string{"\x01", "\x02", "\x7f", "\x80", "\xfe", "\xff", "a", "b", "A", " ", "é", "日本", "𝄞", "0", "9"}
	n := 220
	if env.Thorough() {
		n = 900
	}
	var base []string
	for len(base) < 12 {
		l := rng.Intn(12)
		var sb strings.Builder
		for i := 0; i < l; i++ {
			sb.WriteString(alpha[rng.Intn(len(alpha))])
		}
		base = append(base, sb.String())
	}
	for len(set) < 260+n {
		b := base[rng.Intn(len(base))]
		switch rng.Intn(6) {
		case 0: // prefix
			if len(b) > 0 {
				set[b[:rng.Intn(len(b)+1)]] = true
			}
		case 1:
			set[b+"\x01"] = true
			set[b+"\xff"] = true
		case 2:
			set[b+alpha[rng.Intn(len(alpha))]] = true
		case 3: // long
			l := []int{13, 50, 255, 256, 257, 1000, 3000}[rng.Intn(7)]
			set[b+strings.Repeat(alpha[rng.Intn(len(alpha))], l)[:l]] = true
		case 4: // byte-level neighbours of the 4-zero-byte separator trick
			set[b+"\x01\x01\x01\x01"] = true
			set[b+"\x01"] = true
		default:
			l := rng.Intn(40)
			bs := make([]byte, l)
			for i := range bs {
				bs[i] = byte(1 + rng.Intn(255))
			}
			set[string(bs)] = true
		}
	}
	out := make([]string, 0, len(set))
	for s := range set {
		if !strings.Contains(s, "\x00") {
			out = append(out, s)
		}
	}
	return out
}

func c18Strings(env *core.Env, k, idx int, res *core.CaseResult) {
	strs := c18StringSet(env, k)
	rng := env.Rand(idx)
	encMin := make([][]byte, len(strs))
	encMax := make([][]byte, len(strs))
	for i, s := range strs {
		v := types.NewVarchar(s)
		encMin[i], encMax[i] = c18enc(v, &c18RidMin), c18enc(v, &c18RidMax)
		rid := page.RID{PageID: types.PageID(rng.Int31()), SlotNum: rng.Uint32()}
		e := samehada_util.EncodeValueAndRIDToDicOrderComparableVarchar(&v, &rid)
		d := samehada_util.ExtractOrgKeyFromDicOrderComparableEncodedVarchar(e, types.Varchar)
		res.Add("string_values", 1)
		if d.ValueType() != types.Varchar || d.ToVarchar() != s {
			res.Violate("roundtrip", nil, map[string]any{"string_hex": fmt.Sprintf("%x", s)}, "string %q decodes to %q", s, d.ToVarchar())
		}
		eb := []byte(e.ToVarchar())
		if bytes.Compare(encMin[i], eb) > 0 || bytes.Compare(eb, encMax[i]) > 0 {
			res.Violate("adjacency", nil, map[string]any{"string_hex": fmt.Sprintf("%x", s)}, "entry of key %q with rid %v is outside [key+ridMin, key+ridMax]", s, rid)
		}
	}
	for i := range strs {
		for j := range strs {
			if i == j {
				continue
			}
			res.Add("string_pairs", 1)
			if strs[i] < strs[j] {
				if strings.HasPrefix(strs[j], strs[i]) {
					res.Add("string_prefix_pairs", 1)
					res.Nontrivial = true
				}
				if bytes.Compare(encMax[i], encMin[j]) >= 0 {
					res.Violate("order", nil, map[string]any{"a_hex": fmt.Sprintf("%x", strs[i]), "b_hex": fmt.Sprintf("%x", strs[j])},
						"%q < %q but encode(a,ridMax) >= encode(b,ridMin)", strs[i], strs[j])
				}
			}
		}
	}
	res.Key = fmt.Sprintf("strings-%d", k)
	if k == 0 {
		res.Sample = map[string]any{"kind": "string set", "size": len(strs), "first": fmt.Sprintf("%q", strs[:6])}
	}
}

func c18Rids(env *core.Env, k, idx int, res *core.CaseResult) {
	rng := env.Rand(idx)
	pages := []int32{0, 1, 2, 255, 256, 257, 65535, 65536, 65537, 1 << 24, 1<<24 - 1, 1<<24 + 1, math.MaxInt32, math.MaxInt32 - 1}
	np := 60
	if env.Thorough() {
		np = 1200
	}
	for i := 0; i < np; i++ {
		pages = append(pages, rng.Int31())
		b := int32(1) << uint(rng.Intn(31))
		pages = append(pages, b, b-1)
	}
	check64 := func(r page.RID) {
		res.Add("rid64_values", 1)
		u := samehada_util.PackRIDtoUint64(&r)
		if got := samehada_util.UnpackUint64toRID(u); got != r {
			res.Violate("rid", nil, map[string]any{"rid": r}, "uint64 form: %v unpacks to %v", r, got)
		}
		b8 := samehada_util.PackRIDto8bytes(&r)
		if got := samehada_util.Unpack8BytesToRID(b8); got != r {
			res.Violate("rid", nil, map[string]any{"rid": r}, "8-byte form: %v unpacks to %v", r, got)
		}
		if r.SlotNum <= 0xffff {
			// the 6-byte form the B-tree index stores: page id (4) + low two bytes of the slot
			six := []byte{b8[0], b8[1], b8[2], b8[3], b8[6], b8[7]}
			back := []byte{six[0], six[1], six[2], six[3], 0, 0, six[4], six[5]}
			res.Add("rid6_values", 1)
			if got := samehada_util.Unpack8BytesToRID(back); got != r {
				res.Violate("rid", nil, map[string]any{"rid": r}, "6-byte form: %v unpacks to %v", r, got)
			}
		}
	}
	if k%2 == 0 {
		if env.Thorough() && len(pages) > 400 {
			pages = pages[:400]
		} else if !env.Thorough() && len(pages) > 20 {
			pages = pages[:20]
		}
	}
	for _, p := range pages {
		if k%2 == 0 {
			// all slots for a share of the pages
			for s := uint32(0); s <= 0xffff; s += 1 + uint32(k/2)%3 {
				check64(page.RID{PageID: types.PageID(p), SlotNum: s})
			}
		} else {
			for j := 0; j < 2000; j++ {
				s := rng.Uint32()
				if j%4 == 0 {
					s &= 0xffff
				}
				check64(page.RID{PageID: types.PageID(p), SlotNum: s})
			}
		}
	}
	res.Nontrivial = true
	res.Key = fmt.Sprintf("rids-%d", k)
	if k == 0 {
		res.Sample = map[string]any{"kind": "row ids", "pages": len(pages), "example": page.RID{PageID: math.MaxInt32, SlotNum: 65535}}
	}
}

// c18IndexRids: the packing of a row id into an index value as the index wrappers themselves do it (the B-tree wrapper has its own
// 6-byte form; the skip lists store PackRIDtoUint64): entries with row ids at the limits are stored through InsertEntry and have to come
// back exactly - from ScanKey, from a full range scan (where the entries of one key must be adjacent and keys ascend), and after
// DeleteEntry of half of them addressed by (key, row id).
func c18IndexRids(env *core.Env, k, idx int, res *core.CaseResult) {
	rng := env.Rand(idx)
	kind := []int{c17Skip, c17Btree, c17Uniq}[k%3]
	kt := (k / 3) % 3
	pageSet := map[int32]bool{}
	var pages []int32
	addP := func(p int32) {
		if p >= 0 && !pageSet[p] {
			pageSet[p] = true
			pages = append(pages, p)
		}
	}
	for _, p := range []int32{0, 1, 2, 255, 256, 257, 65535, 65536, 65537, 1<<24 - 1, 1 << 24, 1<<24 + 1, math.MaxInt32 - 1, math.MaxInt32} {
		addP(p)
	}
	for b := uint(3); b < 31; b++ {
		addP(int32(1)<<b - 1)
		addP(int32(1) << b)
		addP(int32(1)<<b | int32(rng.Intn(1<<b)))
	}
	np := 24
	if env.Thorough() {
		np = 160
	}
	for i := 0; i < np; i++ {
		addP(rng.Int31())
	}
	slots := []uint32{0, 1, 2, 255, 256, 257, 4095, 4096, 32767, 32768, 65534, 65535}
	var rids []im.RID
	for _, p := range pages {
		for j := 0; j < 3; j++ {
			rids = append(rids, im.RID{Page: p, Slot: slots[rng.Intn(len(slots))] + 0})
		}
		rids = append(rids, im.RID{Page: p, Slot: uint32(rng.Intn(65536))})
	}
	// dedupe (the same slot may have been drawn twice for a page)
	seen := map[im.RID]bool{}
	w := 0
	for _, r := range rids {
		if !seen[r] {
			seen[r] = true
			rids[w] = r
			w++
		}
	}
	rids = rids[:w]
	rng.Shuffle(len(rids), func(i, j int) { rids[i], rids[j] = rids[j], rids[i] })
	nKeys := 48
	if kind == c17Uniq {
		nKeys = len(rids)
	}
	keys := make([]im.Key, nKeys)
	for i := range keys {
		switch kt {
		case 0:
			keys[i] = im.Key{T: im.KInt, I: int32(i*977 - 20000)}
		case 1:
			keys[i] = im.Key{T: im.KFloat, F: float32(i)*1.25 - 31}
		default:
			keys[i] = im.Key{T: im.KStr, S: fmt.Sprintf("k%05d", i)}
		}
	}
	f := c17NewFix(kind, kt, 256, false, keys)
	want := make([][]im.RID, nKeys)
	where := map[im.RID]int{}
	tags := []string{"index-rid", c17KindNames[kind], c17TypeNames[kt]}
	desc := map[string]any{"index": c17KindNames[kind], "key_type": c17TypeNames[kt], "keys": nKeys, "rids": len(rids)}
	for i, r := range rids {
		ki := i % nKeys
		f.insert(ki, r)
		want[ki] = append(want[ki], r)
		where[r] = ki
		res.Add("index_rid_entries_stored", 1)
		if r.Page >= 1<<24 {
			res.Add("index_rid_entries_with_page_id_ge_2^24", 1)
		}
	}
	audit := func(phase string) {
		for ki := 0; ki < nKeys; ki++ {
			got := f.scanKey(ki)
			res.Add("index_rid_lookups", 1)
			if d := im.CompareSet(got, want[ki]); !d.Empty() {
				res.Violate("rid", tags, desc, "%s: ScanKey(%v) through the %s index: %s", phase, keys[ki], c17KindNames[kind], d.String())
				return
			}
		}
		total := 0
		for _, l := range want {
			total += len(l)
		}
		rows, runaway := f.rangeScan(-1, -1, total+16)
		if runaway {
			res.Violate("rid", tags, desc, "%s: full range scan of the %s index returns more than the %d stored entries", phase, c17KindNames[kind], total)
			return
		}
		if len(rows) != total {
			res.Violate("rid", tags, desc, "%s: full range scan of the %s index returns %d entries, %d are stored", phase, c17KindNames[kind], len(rows), total)
			return
		}
		last := -1
		got := map[im.RID]bool{}
		for i, row := range rows {
			ki, ok := where[row.rid]
			if !ok || got[row.rid] {
				res.Violate("rid", tags, desc, "%s: full range scan of the %s index: entry %d carries row id %v, which is %s", phase, c17KindNames[kind], i, row.rid,
					map[bool]string{true: "returned twice", false: "not stored"}[ok])
				return
			}
			got[row.rid] = true
			if ki < last {
				res.Violate("adjacency", tags, desc, "%s: full range scan of the %s index: entry %d (row id %v) belongs to key %v but follows an entry of the greater key %v: equal keys are not adjacent / keys not ascending",
					phase, c17KindNames[kind], i, row.rid, keys[ki], keys[last])
				return
			}
			last = ki
			res.Add("index_rid_scan_entries", 1)
		}
	}
	audit("after the inserts")
	if len(res.Violations) == 0 {
		for ki := 0; ki < nKeys; ki++ {
			l := want[ki]
			keep := l[:0:0]
			for j, r := range l {
				if (j+ki)%2 == 0 {
					f.delete(ki, r)
					delete(where, r)
					res.Add("index_rid_entries_deleted_by_key_and_rid", 1)
				} else {
					keep = append(keep, r)
				}
			}
			want[ki] = keep
		}
		audit("after deleting every second entry")
	}
	if kind == c17Btree {
		f.closeBtree()
	}
	res.Nontrivial = true
	res.Key = fmt.Sprintf("index-rids-%d", k)
	if k == 0 {
		res.Sample = map[string]any{"kind": "row ids through the index wrappers", "index": c17KindNames[kind], "entries": len(rids), "example": rids[:4]}
	}
}
