package checks

// C14 - statements release every buffer pin they take: pin-vector monitor around every statement + repetition in a tight pool.

import (
	"github.com/ryogrid/SamehadaDB/lib/storage/access"
	"math/rand"
	"runtime"
	"sync"
	"sync/atomic"

	"fmt"
	"sort"
	"strings"
	"time"

	"verifharness/internal/core"
	"verifharness/internal/gen"
	rm "verifharness/internal/refmodel"
	"verifharness/internal/sqlx"
)

func init() {
	core.Register(&core.Check{
		ID:    "C14",
		Level: "exploration",
		Rule: "case = two generated tables + a generated statement list covering every non-DDL statement kind and plan shape: scan-path and index-path SELECT with selection / projection, joins under statistics states that make the optimizer choose HashJoin, IndexJoin and NestedLoopJoin, " +
			"page-allocating multi-row INSERT, in-place / relocating / key-changing UPDATE, DELETE, statements that fail in planning (unknown table / column) and statements aborted by a row lock held by a parked second transaction. " +
			"Monitor: the vector (page id -> pin count) over BufferPoolManager.GetPages() is read before and after EVERY statement (single goroutine, background threads off) and must be equal; " +
			"every fifth step is a multi-statement transaction (own writes followed by scans / joins; pins compared around every statement and around commit / abort); " +
			"second oracle: 1 500 (quick) / 15 000 (thorough) repetitions of each statement kind in a pool of 32 frames must not exhaust it; " +
			"third class (every sixth case): 12-32 client goroutines issue INSERT / UPDATE / DELETE / range SELECT with interleaved ascending keys (long keys in half of the cases) in rounds, and the pin vector is compared whenever all clients of a round have returned. " +
			"Non-trivial statement = plan touches >= 3 distinct pages (join, multi-page scan, page-allocating insert); distinct by (case, statement text)",
		Assumptions: []string{"frames are read only at quiescent points (single goroutine, or all client goroutines of a round have returned)", "permanent pins (index header / start nodes) are on both sides of the comparison"},
		NumCases: func(env *core.Env) int {
			if env.Thorough() {
				return 600
			}
			return 48
		},
		RunCase:     c14Run,
		CaseTimeout: 90 * time.Second,
	})
}

func pinVector(db *sqlx.DB) map[int32]int32 {
	v := map[int32]int32{}
	for _, pg := range db.BPM.GetPages() {
		if pg != nil && pg.PinCount() > 0 {
			v[int32(pg.GetPageID())] += pg.PinCount()
		}
	}
	return v
}

// pinDiff returns the pages that are pinned after but were not pinned before (the property's wording: "leaves no buffer
// frame pinned that was not pinned before it started") and, separately, count changes on frames that were already pinned
// (permanently pinned index start nodes: reported in the evidence, not judged).
func pinDiff(a, b map[int32]int32) (newlyPinned string, growth int64) {
	var out []string
	keys := map[int32]bool{}
	for k := range a {
		keys[k] = true
	}
	for k := range b {
		keys[k] = true
	}
	var ks []int
	for k := range keys {
		ks = append(ks, int(k))
	}
	sort.Ints(ks)
	for _, k := range ks {
		if a[int32(k)] == 0 && b[int32(k)] > 0 {
			out = append(out, fmt.Sprintf("page %d: %d -> %d", k, a[int32(k)], b[int32(k)]))
		} else if a[int32(k)] != b[int32(k)] {
			growth += int64(b[int32(k)] - a[int32(k)])
		}
	}
	return strings.Join(out, ", "), growth
}

// c14Concurrent: statements of several clients at once. 12-32 goroutines insert rows with interleaved ascending keys
// (long strings in half of the cases: node splits in every index on every few inserts), update and delete their own rows
// and read ranges, in rounds; whenever all clients of a round have returned the pin vector must be what it was before
// the round (pages with count 0 before and > 0 after are leaks; nothing is running, so no statement can still hold a pin).
func c14Concurrent(env *core.Env, idx int, r *rand.Rand, res *core.CaseResult) *core.CaseResult {
	memKB := []int{1024, 4096}[r.Intn(2)]
	db := sqlx.Open(fmt.Sprintf("%s/c14c_%d", env.TmpDir, idx), memKB, sqlx.Options{})
	long := r.Intn(2) == 0
	cols := []rm.Col{{Name: "id", K: rm.KInt}, {Name: "k", K: rm.KInt}, {Name: "v", K: rm.KStr}}
	if err := db.CreateTableSQL("c", cols); err != nil {
		res.Inconclusive = "create table failed"
		return res
	}
	clients := 12 + r.Intn(21)
	rounds := 6
	per := 12
	if env.Thorough() {
		rounds, per = 12, 25
	}
	procs := []int{4, 16}[r.Intn(2)]
	old := runtime.GOMAXPROCS(procs)
	defer runtime.GOMAXPROCS(old)
	desc := map[string]any{"seed": env.Seed, "idx": idx, "memKB": memKB, "clients": clients, "rounds": rounds, "statements_per_client_and_round": per, "long_keys": long, "gomaxprocs": procs}
	tags := []string{"concurrent-statements"}
	if long {
		tags = append(tags, "long-keys")
	}
	res.Add("concurrent_cases", 1)
	var fatal atomic.Value
	var aborted, done atomic.Int64
	for round := 0; round < rounds; round++ {
		before := pinVector(db)
		var wg sync.WaitGroup
		gate := make(chan struct{})
		for c := 0; c < clients; c++ {
			wg.Add(1)
			lr := rand.New(rand.NewSource(r.Int63()))
			go func(c int) {
				defer wg.Done()
				defer func() {
					if x := recover(); x != nil {
						fatal.CompareAndSwap(nil, fmt.Sprintf("client %d: %v | %s", c, x, engineFrames(stackBytes())))
					}
				}()
				<-gate
				for n := 0; n < per; n++ {
					id := (round*per+n)*clients + c // interleaved ascending keys: neighbours in every index belong to different clients
					pad := 4 + lr.Intn(8)
					if long {
						pad = 120 + lr.Intn(200)
					}
					var sql string
					switch x := lr.Intn(10); {
					case x < 7:
						sql = fmt.Sprintf("INSERT INTO c(id, k, v) VALUES (%d, %d, 'v%08d%s');", id, id%7, id, strings.Repeat("p", pad))
					case x < 8 && n > 0:
						sql = fmt.Sprintf("UPDATE c SET k = %d WHERE id = %d;", lr.Intn(7), id-clients)
					case x < 9 && n > 0:
						sql = fmt.Sprintf("DELETE FROM c WHERE id = %d;", id-clients)
					default:
						sql = fmt.Sprintf("SELECT id FROM c WHERE id >= %d AND id <= %d;", id-3*clients, id)
					}
					rr := db.Auto(sql)
					done.Add(1)
					if rr.Aborted || rr.Err != nil {
						aborted.Add(1) // no-wait locking: a conflict aborts the statement; its pins must be gone all the same
					}
				}
			}(c)
		}
		close(gate)
		wg.Wait()
		if f := fatal.Load(); f != nil {
			res.Violate("panic", tags, desc, "concurrent statements panicked in round %d: %s", round, clipStr(f.(string), 400))
			return res
		}
		res.Add("concurrent_rounds", 1)
		if d, _ := pinDiff(before, pinVector(db)); d != "" {
			res.Violate("pin-leak", tags, desc, "after round %d (%d clients x %d statements, all returned) the pin vector differs from the one before the round: %s", round, clients, per, d)
			return res
		}
	}
	res.Add("concurrent_statements", done.Load())
	res.Add("concurrent_statements_aborted", aborted.Load())
	res.Add("statements", done.Load())
	res.Nontrivial = true
	res.Key = fmt.Sprintf("c14c-%d", idx)
	guarded(func() { db.S.ShutdownForTescase() })
	return res
}

func c14Run(env *core.Env, idx int) *core.CaseResult {
	r := env.Rand(idx)
	res := core.NewResult()
	if idx%6 == 5 {
		return c14Concurrent(env, idx, r, res)
	}
	loop := idx%4 == 3 // every 4th case is a repetition case in a tight pool
	memKB := []int{512, 1024, 4096}[r.Intn(3)]
	if loop {
		memKB = 128
	}
	db := sqlx.Open(fmt.Sprintf("%s/c14_%d", env.TmpDir, idx), memKB, sqlx.Options{})
	mk := func(name string, via string) *rm.Table {
		t := &rm.Table{Name: name, Cols: []rm.Col{{Name: "id", K: rm.KInt}, {Name: name + "k", K: rm.KInt}, {Name: name + "v", K: rm.KStr}}}
		if via == "sql" {
			db.CreateTableSQL(name, t.Cols)
		} else {
			db.CreateTableAPI(name, t.Cols, []string{"skiplist", []string{"", "skiplist", "btree"}[r.Intn(3)], ""})
		}
		return t
	}
	via := "sql"
	if r.Intn(3) == 0 {
		via = "api"
	}
	p, q := mk("p", via), mk("q", "sql")
	nextID := int32(1)
	fill := func(t *rm.Table, n int, size int) {
		for i := 0; i < n; i += 10 {
			var rows []rm.Row
			for j := i; j < i+10 && j < n; j++ {
				rows = append(rows, rm.Row{rm.Int(nextID), rm.Int(int32(r.Intn(6))), rm.Str(strings.Repeat("x", 1+r.Intn(size)))})
				nextID++
			}
			sql, _ := sqlx.InsertSQL(t.Name, t.Cols, rows)
			db.Auto(sql)
			t.Rows = append(t.Rows, rows...)
		}
	}
	big := 300
	if loop {
		big = 40
	}
	fill(p, 5+r.Intn(big), []int{20, 200, 700}[r.Intn(3)])
	fill(q, 5+r.Intn(60), 30)
	desc := func(sql, shape string) map[string]any {
		return map[string]any{"seed": env.Seed, "idx": idx, "memKB": memKB, "via_p": via, "rows_p": len(p.Rows), "rows_q": len(q.Rows), "statement": clipStr(sql, 300), "plan": shape}
	}
	type stmt struct {
		sql  string
		kind string
	}
	someID := func(t *rm.Table) int32 {
		if len(t.Rows) == 0 {
			return 1
		}
		if r.Intn(5) == 0 {
			return t.Rows[0][0].I // the first row of the heap has code paths of its own (iterator start)
		}
		return t.Rows[r.Intn(len(t.Rows))][0].I
	}
	genStmt := func() stmt {
		switch r.Intn(14) {
		case 0:
			return stmt{fmt.Sprintf("SELECT * FROM p WHERE id = %d;", someID(p)), "select-index-point"}
		case 1:
			return stmt{fmt.Sprintf("SELECT pv, id FROM p WHERE id >= %d AND pk < 4;", someID(p)), "select-index-range"}
		case 2:
			return stmt{fmt.Sprintf("SELECT id FROM p WHERE id >= %d OR pk = 2;", someID(p)), "select-scan"}
		case 3:
			return stmt{"SELECT p.id, q.id FROM p JOIN q ON p.pk = q.qk;", "join"}
		case 4:
			return stmt{fmt.Sprintf("SELECT p.id, q.qv FROM p, q WHERE p.id = q.id AND p.pk <= %d;", r.Intn(6)), "join"}
		case 5:
			return stmt{fmt.Sprintf("SELECT q.id FROM q, p WHERE q.qk = p.id AND q.id > %d;", r.Intn(20)), "join"}
		case 6:
			n := 1 + r.Intn(12)
			var rows []rm.Row
			for j := 0; j < n; j++ {
				rows = append(rows, rm.Row{rm.Int(nextID), rm.Int(int32(r.Intn(6))), rm.Str(strings.Repeat("i", 1+r.Intn(700)))})
				nextID++
			}
			sql, _ := sqlx.InsertSQL("p", p.Cols, rows)
			return stmt{sql, "insert"}
		case 7:
			return stmt{fmt.Sprintf("UPDATE p SET pv = '%s' WHERE id = %d;", strings.Repeat("g", 1+r.Intn(800)), someID(p)), "update-relocating"}
		case 8:
			return stmt{fmt.Sprintf("UPDATE p SET pk = %d WHERE id >= %d;", r.Intn(6), someID(p)), "update-in-place"}
		case 9:
			id := someID(q)
			return stmt{fmt.Sprintf("UPDATE q SET id = %d WHERE id = %d;", 100000+r.Intn(100000), id), "update-key"}
		case 10:
			return stmt{fmt.Sprintf("DELETE FROM p WHERE id = %d;", someID(p)), "delete"}
		case 11:
			return stmt{"SELECT nosuch FROM p WHERE id = 1;", "plan-error"}
		case 12:
			return stmt{"SELECT id FROM nosuchtable WHERE id = 1;", "plan-error"}
		default:
			return stmt{fmt.Sprintf("SELECT * FROM q WHERE qv >= '%s';", gen.Value(r, rm.KStr, false, false).S), "select-varchar-range"}
		}
	}
	// execIn runs one statement and compares the pin vector before and after it; open == nil: in its own transaction
	var execIn func(open *access.Transaction, st stmt) (aborted bool, shape string, panicMsg string)
	exec := func(st stmt) (aborted bool, shape string, panicMsg string) { return execIn(nil, st) }
	execIn = func(open *access.Transaction, st stmt) (aborted bool, shape string, panicMsg string) {
		before := pinVector(db)
		var rr sqlx.Result
		// one SELECT in four runs below a LIMIT node built through the plan API (1-3 rows): its executors are abandoned half way
		limited := uint32(0)
		if strings.HasPrefix(st.sql, "SELECT") && st.kind != "plan-error" && r.Intn(4) == 0 {
			limited = uint32(1 + r.Intn(3))
			res.Add("statements_cut_short_by_a_limit_node", 1)
		}
		run := func(txn *access.Transaction) sqlx.Result {
			if limited > 0 {
				return db.ExecLimited(txn, st.sql, limited)
			}
			return db.Exec(txn, st.sql)
		}
		msg, panicked := guarded(func() {
			if open != nil {
				rr = run(open)
				return
			}
			txn := db.Begin()
			rr = run(txn)
			if rr.Aborted {
				db.Abort(txn)
			} else {
				db.Commit(txn)
			}
		})
		res.Add("statements", 1)
		if open != nil {
			res.Add("statements_inside_multi_statement_transactions", 1)
		}
		res.Add("statements_"+st.kind, 1)
		if panicked {
			return false, "", msg
		}
		after := pinVector(db)
		if rr.Shape != "" {
			res.Seen("plan_shapes", rr.Shape)
		}
		d, growth := pinDiff(before, after)
		if growth != 0 {
			res.Add("pin_count_changes_on_already_pinned_frames", growth)
			res.Add("statements_changing_count_of_already_pinned_frames", 1)
		}
		if d != "" {
			tags := []string{"kind-" + st.kind}
			if limited > 0 {
				tags = append(tags, "limit-node-above")
			}
			if open != nil {
				tags = append(tags, "in-multi-statement-txn")
			}
			for _, a := range []string{"HashJoin", "IndexJoin", "NestedLoopJoin", "IndexRangeScan", "SeqScan"} {
				if strings.Contains(rr.Shape, a) {
					tags = append(tags, "plan-"+a)
				}
			}
			outcome := "completed"
			if rr.Aborted {
				outcome = "aborted"
				tags = append(tags, "aborted")
			} else if rr.Err != nil {
				outcome = "failed in planning"
			}
			res.Violate("pin-leak", tags, desc(st.sql, rr.Shape), "%s [%s, plan %s] changed the pin vector: %s", clipStr(st.sql, 160), outcome, rr.Shape, d)
		}
		if strings.Contains(rr.Shape, "Join") || strings.HasPrefix(st.kind, "insert") || (strings.Contains(rr.Shape, "SeqScan") && len(p.Rows) > 60) {
			res.Nontrivial = true
			res.Add("nontrivial_statements", 1)
		}
		return rr.Aborted, rr.Shape, ""
	}
	if !loop {
		n := 40
		if env.Thorough() {
			n = 120
		}
		for i := 0; i < n; i++ {
			if i == n/3 || i == 2*n/3 {
				guarded(func() { db.UpdateStats() })
			}
			st := genStmt()
			if _, _, pm := exec(st); pm != "" {
				res.Violate("panic", []string{"kind-" + st.kind}, desc(st.sql, ""), "%s panicked: %s", clipStr(st.sql, 160), pm)
				return res
			}
			// a multi-statement transaction: every statement sees the transaction's own earlier changes (rows it deleted,
			// moved or inserted); pins are compared around every statement and around the commit / abort
			if i%5 == 4 {
				txn := db.Begin()
				beforeTxn := pinVector(db)
				nst := 2 + r.Intn(4)
				dead := false
				var sqls []string
				shrinkAbort := r.Intn(3) == 0 && len(p.Rows) > 0
				for k := 0; k < nst && !dead; k++ {
					st := genStmt()
					if shrinkAbort && k == 0 {
						// a shrinking update of the most recently inserted row moves it within its own (last) page; the transaction is
						// aborted below: the rollback of a same-page relocation has a path of its own
						last := p.Rows[len(p.Rows)-1][0].I
						st = stmt{fmt.Sprintf("UPDATE p SET pv = 's' WHERE id = %d;", last), "update-shrinking-last-row"}
					}
					if st.kind == "plan-error" {
						st = stmt{"SELECT id, pk FROM p WHERE id >= 0 OR pk = 2;", "select-scan"}
					}
					if k == nst-1 && r.Intn(2) == 0 {
						st = stmt{[]string{"SELECT id, pv FROM p WHERE pk >= 0 OR id = 1;", "SELECT * FROM q WHERE qk >= 0 OR id = 1;", "SELECT p.id, q.id FROM p JOIN q ON p.pk = q.qk;"}[r.Intn(3)], "select-scan-after-own-writes"}
					}
					sqls = append(sqls, clipStr(st.sql, 80))
					ab, _, pm := execIn(txn, st)
					if pm != "" {
						res.Violate("panic", []string{"kind-" + st.kind, "in-multi-statement-txn"}, desc(strings.Join(sqls, " | "), ""), "%s panicked inside a multi-statement transaction: %s", clipStr(st.sql, 160), pm)
						return res
					}
					if ab {
						dead = true
					}
				}
				end := "commit"
				if dead || shrinkAbort || r.Intn(3) == 0 {
					end = "abort"
				}
				if msg, panicked := guarded(func() {
					if end == "abort" {
						db.Abort(txn)
					} else {
						db.Commit(txn)
					}
				}); panicked {
					res.Violate("panic", []string{"txn-" + end, "in-multi-statement-txn"}, desc(strings.Join(sqls, " | "), ""), "%s of a multi-statement transaction panicked: %s", end, msg)
					return res
				}
				res.Add("multi_statement_transactions", 1)
				res.Add("multi_statement_transactions_"+end, 1)
				if d, _ := pinDiff(beforeTxn, pinVector(db)); d != "" {
					res.Violate("pin-leak", []string{"txn-" + end, "in-multi-statement-txn"}, desc(strings.Join(sqls, " | "), ""), "transaction [%s] ended by %s changed the pin vector: %s", strings.Join(sqls, " | "), end, d)
				}
			}
			// a statement aborted by a lock that a parked transaction holds
			if i%8 == 7 && len(q.Rows) > 0 {
				id := someID(q)
				holder := db.Begin()
				hr := db.Exec(holder, fmt.Sprintf("UPDATE q SET qk = 9 WHERE id = %d;", id))
				if hr.Aborted || hr.Err != nil {
					db.Abort(holder)
					continue
				}
				for _, vs := range []stmt{{fmt.Sprintf("UPDATE q SET qk = 8 WHERE id = %d;", id), "conflict-update"}, {fmt.Sprintf("SELECT * FROM q WHERE id = %d;", id), "conflict-select"}, {"SELECT p.id, q.id FROM p JOIN q ON p.pk = q.qk;", "conflict-join"}, {fmt.Sprintf("DELETE FROM q WHERE id <= %d;", id), "conflict-delete"}} {
					ab, _, pm := exec(vs)
					if pm != "" {
						res.Violate("panic", []string{"kind-" + vs.kind}, desc(vs.sql, ""), "%s panicked: %s", vs.sql, pm)
						return res
					}
					if ab {
						res.Add("statements_aborted_by_parked_lock", 1)
					}
				}
				db.Abort(holder)
			}
		}
	} else {
		reps := 1500
		if env.Thorough() {
			reps = 15000
		}
		kinds := []stmt{
			{"SELECT p.id, q.id FROM p JOIN q ON p.pk = q.qk;", "join"},
			{"SELECT p.id, q.qv FROM p, q WHERE p.id = q.id;", "join"},
			{fmt.Sprintf("SELECT * FROM p WHERE id >= %d;", someID(p)), "select-index-range"},
			{"SELECT id FROM p WHERE id >= 0 OR pk = 2;", "select-scan"},
			{fmt.Sprintf("UPDATE p SET pk = 3 WHERE id = %d;", someID(p)), "update-in-place"},
			{"SELECT nosuch FROM p WHERE id = 1;", "plan-error"},
		}
		st := kinds[(idx/4)%len(kinds)]
		res.Add("repetition_loops", 1)
		for i := 0; i < reps; i++ {
			var rr sqlx.Result
			msg, panicked := guarded(func() { rr = db.Auto(st.sql) })
			res.Add("repetitions", 1)
			if panicked {
				k := "panic"
				if strings.Contains(msg, "Victim") || strings.Contains(msg, "cache out") {
					k = "pool-exhausted"
				}
				res.Violate(k, []string{"kind-" + st.kind, "repetition"}, desc(st.sql, ""), "repetition %d of %q in a %d-frame pool panicked: %s", i+1, st.sql, memKB/4, msg)
				return res
			}
			if rr.Aborted {
				res.Violate("abort", []string{"kind-" + st.kind, "repetition"}, desc(st.sql, ""), "single-user repetition %d of %q aborted", i+1, st.sql)
				return res
			}
		}
		res.Nontrivial = true
	}
	res.Key = fmt.Sprintf("c14-%d", idx)
	if idx < 2 {
		res.Sample = desc("(statement list is generated per case)", "")
	}
	return res
}
