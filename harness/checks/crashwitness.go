package checks

import (
	"encoding/json"
	"fmt"
	"strings"

	"verifharness/internal/core"
	"verifharness/internal/crashlab"
	"verifharness/internal/rec"
	rm "verifharness/internal/refmodel"
	"verifharness/internal/sqlx"
)

// crashWitness: a concrete crash case for the listed findings of the crash-laboratory properties.
// Steps are auto-commit statements / forced checkpoints run under the recorder; the crash point is "the N-th page write
// after setup", optionally torn after TearSectors 512-byte sectors; Expect is the committed table content at that point.
type crashWitness struct {
	MemKB            int               `json:"memKB"`
	Table            crashlab.TableDef `json:"table"`
	Steps            []wStep           `json:"steps"`
	CrashAtWritePage int               `json:"crash_at_write_page"`
	TearSectors      int               `json:"tear_sectors"`
	Expect           [][]wCell         `json:"expect"`
	Property         string            `json:"property"`
}

func runCrashWitness(env *core.Env, raw json.RawMessage) *core.CaseResult {
	res := core.NewResult()
	var w crashWitness
	if err := json.Unmarshal(raw, &w); err != nil {
		res.Inconclusive = "bad witness: " + err.Error()
		return res
	}
	if w.MemKB == 0 {
		w.MemKB = 256
	}
	get := rec.Install()
	db := sqlx.Open(env.TmpDir+"/cw_hist", w.MemKB, sqlx.Options{})
	rc := get()
	rec.Uninstall()
	if w.Table.Via == "api" {
		db.CreateTableAPI(w.Table.Name, crashlab.Cols, w.Table.Idx)
	} else {
		db.CreateTableSQL(w.Table.Name, crashlab.Cols)
	}
	setup := rc.Len()
	for _, st := range w.Steps {
		if st.Stats { // reused flag: forced checkpoint
			db.S.ForceCheckpointingForTestcase()
			continue
		}
		if r := db.Auto(expandReps(st.SQL)); r.Err != nil || r.Aborted {
			res.Inconclusive = fmt.Sprintf("witness statement failed live: %s err=%v aborted=%v", st.SQL, r.Err, r.Aborted)
			return res
		}
	}
	events := rc.Events
	rc.On = false
	guarded(func() { db.S.ShutdownForTescase() })
	im := &rec.Image{}
	n := 0
	found := false
	for i := range events {
		e := &events[i]
		if i >= setup && e.Kind == rec.WritePage {
			n++
			if n == w.CrashAtWritePage {
				if w.TearSectors > 0 {
					im.ApplyTorn(e, w.TearSectors)
				} else {
					im.Apply(e)
				}
				found = true
				break
			}
		}
		im.Apply(e)
	}
	if !found {
		res.Inconclusive = fmt.Sprintf("witness history produced only %d page writes after setup", n)
		return res
	}
	path := env.TmpDir + "/cw_img"
	rcv := crashlab.Recover(path, im, w.MemKB, []crashlab.TableDef{w.Table}, true)
	defer rcv.Close(path)
	var exp []rm.Row
	for _, r := range w.Expect {
		row := make(rm.Row, len(r))
		for j, c := range r {
			row[j] = c.cell()
		}
		exp = append(exp, row)
	}
	switch {
	case rcv.Hung:
		res.RestartChild = true
		res.Violate("restart-hang", nil, nil, "%s", rcv.Failure)
	case rcv.Failure != "":
		res.Violate("restart-failed", nil, nil, "%s", rcv.Failure)
	default:
		if d := rm.DiffMultiset(rcv.Tables[w.Table.Name], exp, nil); d != "" {
			k := "committed-lost"
			if w.Property == "C02" {
				k = "loser-visible"
			}
			res.Violate(k, nil, nil, "recovered table differs from the committed state: %s", d)
		} else if rcv.Battery != "" {
			res.Violate("post-recovery-battery", nil, nil, "%s", rcv.Battery)
		}
	}
	return res
}

// expandReps expands {c*N} in a witness statement to N repetitions of the character c.
func expandReps(s string) string {
	for {
		i := strings.Index(s, "{")
		j := strings.Index(s, "}")
		if i < 0 || j < i {
			return s
		}
		var c string
		var n int
		if _, err := fmt.Sscanf(s[i:j+1], "{%1s*%d}", &c, &n); err != nil {
			return s
		}
		s = s[:i] + strings.Repeat(c, n) + s[j+1:]
	}
}
