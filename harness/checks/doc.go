// Package checks holds one file per property check; each registers itself with core.Register in init().
package checks
