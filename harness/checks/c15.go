package checks

// C15 - slotted pages never corrupt or lose a stored row.
// Subject: access.TablePage over page.NewEmpty, transaction in recovery-phase mode (no locking), log manager with
// logging off (the configuration redo/undo uses). Generated op sequences; after EVERY operation the raw page bytes
// are parsed by the harness's own reader and compared with a map model slot -> (bytes, marked); the touched row and
// two random live rows are read through GetTuple as well (all live rows every 16 operations and at the end).
// Acceptance: insert/update must succeed when the bytes fit with the 8 spare bytes of a new slot entry, must not
// succeed when they do not fit; the band in between (slot reuse is charged 8 bytes it does not need) is don't-care.

import (
	"bytes"
	"crypto/sha1"
	"encoding/binary"
	"encoding/hex"
	"encoding/json"
	"fmt"
	"math/rand"
	"sort"
	"sync"

	"github.com/ryogrid/SamehadaDB/lib/recovery"
	"github.com/ryogrid/SamehadaDB/lib/storage/access"
	"github.com/ryogrid/SamehadaDB/lib/storage/page"
	"github.com/ryogrid/SamehadaDB/lib/storage/tuple"
	"github.com/ryogrid/SamehadaDB/lib/types"

	"verifharness/internal/core"
)

const (
	c15PageSize  = 4096
	c15Header    = 24
	c15SlotEntry = 8
	c15DelMask   = uint32(1) << 31
	c15PageID    = 7
	c15PrevID    = 0x01234567
	c15NextID    = 0x07654321
	c15Profiles  = 6
)

const (
	c15Empty = iota
	c15Live
	c15Marked
)

type c15Op struct {
	Op   string `json:"op"` // ins | upd | mark | apply | rollback | get
	Slot int    `json:"slot"`
	Size int    `json:"size,omitempty"`
	Fill uint64 `json:"fill,omitempty"` // seed of the row bytes
	Undo bool   `json:"undo,omitempty"` // isRollbackOrUndo of UpdateTuple
	At   int    `json:"at,omitempty"`   // ins: the row carries the row id (page, At-1), the way redo / undo re-insert a row (0 = no row id)
}

func (o c15Op) String() string {
	switch o.Op {
	case "ins":
		if o.At > 0 {
			return fmt.Sprintf("ins(size=%d, at slot %d)", o.Size, o.At-1)
		}
		return fmt.Sprintf("ins(size=%d)", o.Size)
	case "upd":
		return fmt.Sprintf("upd(slot=%d,size=%d,undo=%v)", o.Slot, o.Size, o.Undo)
	}
	return fmt.Sprintf("%s(slot=%d)", o.Op, o.Slot)
}

type c15Slot struct {
	st   int
	data []byte
}

type c15Viol struct {
	kind   string
	tags   []string
	detail string
}

var (
	c15LogOnce sync.Once
	c15LogMgr  *recovery.LogManager
)

func c15Log() *recovery.LogManager {
	c15LogOnce.Do(func() { c15LogMgr = recovery.NewLogManager(nil) }) // logging is off by default; the disk manager is never touched
	return c15LogMgr
}

// c15Bytes: deterministic row content from (fill, size): splitmix64 stream, so every write is distinguishable.
func c15Bytes(fill uint64, size int) []byte {
	b := make([]byte, size)
	x := fill*0x9E3779B97F4A7C15 + 0x1234567
	for i := 0; i < size; i += 8 {
		x += 0x9E3779B97F4A7C15
		z := x
		z = (z ^ (z >> 30)) * 0xBF58476D1CE4E5B9
		z = (z ^ (z >> 27)) * 0x94D049BB133111EB
		z ^= z >> 31
		for j := 0; j < 8 && i+j < size; j++ {
			b[i+j] = byte(z >> (8 * uint(j)))
		}
	}
	return b
}

// c15Exec is one page under test plus its model.
type c15Exec struct {
	buf   [c15PageSize]byte
	tp    *access.TablePage
	txn   *access.Transaction
	slots []c15Slot // the model: slot -> (state, bytes)
	order []int     // physical order of non-empty rows, highest address first (used for tags / non-triviality only)
	hdr   [16]byte
	res   *core.CaseResult
	nops  int
	// non-triviality
	nontrivial bool
	zeroFree   bool
}

func c15New(res *core.CaseResult) *c15Exec {
	e := &c15Exec{res: res}
	pg := page.NewEmpty(types.PageID(c15PageID), &e.buf)
	e.tp = access.CastPageAsTablePage(pg)
	e.txn = access.NewTransaction(types.TxnID(1))
	e.txn.SetIsRecoveryPhase(true)
	e.tp.Init(types.PageID(c15PageID), types.PageID(c15PrevID), c15Log(), nil, e.txn, false)
	e.tp.SetNextPageID(types.PageID(c15NextID))
	copy(e.hdr[:], e.buf[:16])
	return e
}

func (e *c15Exec) used() int {
	s := 0
	for i := range e.slots {
		if e.slots[i].st != c15Empty {
			s += len(e.slots[i].data)
		}
	}
	return s
}

func (e *c15Exec) free() int { return c15PageSize - c15Header - c15SlotEntry*len(e.slots) - e.used() }

func (e *c15Exec) firstEmpty() int {
	for i := range e.slots {
		if e.slots[i].st == c15Empty {
			return i
		}
	}
	return -1
}

func (e *c15Exec) count(st int) int {
	n := 0
	for i := range e.slots {
		if e.slots[i].st == st {
			n++
		}
	}
	return n
}

func (e *c15Exec) isLowest(slot int) bool {
	return len(e.order) > 0 && e.order[len(e.order)-1] == slot
}

func (e *c15Exec) dropOrder(slot int) {
	for i, s := range e.order {
		if s == slot {
			e.order = append(e.order[:i], e.order[i+1:]...)
			return
		}
	}
}

// tagsFor derives the trigger tags from the operation and the MODEL state before it (input side only).
func (e *c15Exec) tagsFor(op c15Op) []string {
	var t []string
	st := -1
	if op.Slot >= 0 && op.Slot < len(e.slots) {
		st = e.slots[op.Slot].st
	}
	switch op.Op {
	case "ins":
		if e.firstEmpty() >= 0 {
			t = append(t, "ins-reuse")
		} else {
			t = append(t, "ins-new")
		}
	case "upd":
		switch {
		case st != c15Live:
			t = append(t, "upd-dead")
		case op.Size > len(e.slots[op.Slot].data):
			t = append(t, "upd-grow")
		case op.Size < len(e.slots[op.Slot].data):
			t = append(t, "upd-shrink")
		default:
			t = append(t, "upd-equal")
		}
	default:
		t = append(t, op.Op)
	}
	if st == c15Live || st == c15Marked {
		if !e.isLowest(op.Slot) {
			t = append(t, t[0]+"-middle")
		}
		if st == c15Marked {
			t = append(t, t[0]+"-marked")
		}
	}
	if e.free() == 0 {
		t = append(t, "full-page")
	}
	return t
}

func c15v(kind string, tags []string, format string, a ...any) *c15Viol {
	return &c15Viol{kind, tags, fmt.Sprintf(format, a...)}
}

// applicable: operations whose precondition is the caller's contract (the engine asserts it) are skipped when replaying
// a reduced sequence.
func (e *c15Exec) applicable(op c15Op) bool {
	switch op.Op {
	case "apply", "rollback":
		return op.Slot >= 0 && op.Slot < len(e.slots) && e.slots[op.Slot].st != c15Empty
	case "ins", "upd":
		return op.Size >= 1
	}
	return op.Slot >= 0
}

// step executes one operation on the page and on the model and checks everything. A panic inside the engine is a violation.
func (e *c15Exec) step(op c15Op, rng *rand.Rand) (v *c15Viol) {
	tags := e.tagsFor(op)
	defer func() {
		if p := recover(); p != nil {
			v = c15v("panic", tags, "%s panicked: %v", op, p)
		}
	}()
	e.nops++
	e.res.Add("ops", 1)
	e.res.Add("op_"+tags[0], 1)
	st := -1
	if op.Slot >= 0 && op.Slot < len(e.slots) {
		st = e.slots[op.Slot].st
	}
	rid := page.RID{PageID: types.PageID(c15PageID), SlotNum: uint32(op.Slot)}
	free := e.free()
	liveBefore := e.count(c15Live)
	middle := (st == c15Live || st == c15Marked) && !e.isLowest(op.Slot)
	switch op.Op {
	case "ins":
		data := c15Bytes(op.Fill, op.Size)
		var at *page.RID
		want := -1 // the slot the row has to go to if it is accepted (-1: lowest empty slot, else a new one)
		if op.At > 0 {
			at = &page.RID{PageID: types.PageID(c15PageID), SlotNum: uint32(op.At - 1)}
			e.res.Add("inserts_at_a_given_row_id", 1)
			if op.At-1 == len(e.slots) || (op.At-1 < len(e.slots) && e.slots[op.At-1].st == c15Empty) {
				want = op.At - 1
				if want == len(e.slots) && e.firstEmpty() >= 0 {
					e.res.Add("inserts_at_a_new_slot_while_a_lower_slot_is_empty", 1)
				}
			}
		}
		tpl := tuple.NewTuple(at, uint32(op.Size), append([]byte(nil), data...))
		got, err := e.tp.InsertTuple(tpl, c15Log(), nil, e.txn)
		if err == nil && got != nil {
			s := int(got.SlotNum)
			if want >= 0 && s != want {
				return c15v("rowid", tags, "%s was placed in slot %d although the slot it names is usable", op, s)
			}
			if got.PageID != types.PageID(c15PageID) {
				return c15v("rowid", tags, "%s returned page id %d", op, got.PageID)
			}
			if s > len(e.slots) || (s < len(e.slots) && e.slots[s].st != c15Empty) {
				return c15v("rowid", tags, "%s returned slot %d which is not an empty or the next new slot (model has %d slots)", op, s, len(e.slots))
			}
			need := op.Size
			if s == len(e.slots) {
				need += c15SlotEntry
			}
			if need > free {
				return c15v("accept", tags, "%s succeeded (slot %d) though only %d bytes were free", op, s, free)
			}
			if s == len(e.slots) {
				e.slots = append(e.slots, c15Slot{})
			} else {
				e.res.Add("slot_reuses", 1)
			}
			e.slots[s] = c15Slot{c15Live, data}
			e.order = append(e.order, s)
			e.res.Add("inserts_accepted", 1)
			if e.free() == 0 {
				e.res.Add("page_exactly_full", 1)
				e.zeroFree = true
			}
		} else {
			if free >= op.Size+c15SlotEntry {
				return c15v("refuse", tags, "%s refused (%v) though %d bytes were free", op, err, free)
			}
			e.res.Add("inserts_refused", 1)
			if op.Size <= free && e.firstEmpty() >= 0 {
				e.res.Add("inserts_refused_in_dontcare_band", 1)
			}
		}
	case "upd":
		data := c15Bytes(op.Fill, op.Size)
		newT := tuple.NewTuple(nil, uint32(op.Size), append([]byte(nil), data...))
		oldT := new(tuple.Tuple)
		ok, err, _ := e.tp.UpdateTuple(newT, nil, nil, oldT, &rid, e.txn, nil, c15Log(), op.Undo)
		if st != c15Live {
			if ok {
				return c15v("accept", tags, "%s succeeded on a row that is not live (model state %d)", op, st)
			}
			e.res.Add("ops_on_dead_rows_refused", 1)
			break
		}
		old := e.slots[op.Slot].data
		fits := free+len(old) >= op.Size
		if ok {
			if !fits {
				return c15v("accept", tags, "%s succeeded though free %d + old %d < new %d", op, free, len(old), op.Size)
			}
			if !bytes.Equal(oldT.Data(), old) || int(oldT.Size()) != len(old) {
				return c15v("readback", tags, "%s copied out an old value that differs from what was stored (len %d, stored %d)", op, oldT.Size(), len(old))
			}
			e.slots[op.Slot].data = data
			e.res.Add("updates_accepted", 1)
			if len(old) != op.Size && middle {
				e.res.Add("size_changing_updates_in_the_middle", 1)
				if liveBefore >= 3 {
					e.nontrivial = true
				}
			}
			if e.free() == 0 {
				e.res.Add("page_exactly_full", 1)
				e.zeroFree = true
			}
		} else {
			if fits && (op.Undo || op.Size >= len(old)) {
				return c15v("refuse", tags, "%s refused (%v) though free %d + old %d >= new %d", op, err, free, len(old), op.Size)
			}
			if fits {
				e.res.Add("shrinking_updates_refused_without_undo_flag", 1) // documented refusal, don't-care
			} else {
				e.res.Add("updates_refused_no_space", 1)
			}
		}
	case "mark":
		ok, tpl := e.tp.MarkDelete(&rid, e.txn, nil, c15Log())
		if st != c15Live {
			if ok {
				return c15v("accept", tags, "%s succeeded on a row that is not live (model state %d)", op, st)
			}
			e.res.Add("ops_on_dead_rows_refused", 1)
			break
		}
		if !ok {
			return c15v("refuse", tags, "%s refused on a live row", op)
		}
		if tpl == nil || !bytes.Equal(tpl.Data(), e.slots[op.Slot].data) {
			return c15v("readback", tags, "%s returned a row image that differs from what was stored", op)
		}
		e.slots[op.Slot].st = c15Marked
		e.res.Add("marks", 1)
	case "apply":
		e.tp.ApplyDelete(&rid, e.txn, c15Log())
		e.slots[op.Slot] = c15Slot{}
		e.dropOrder(op.Slot)
		e.res.Add("applied_deletes", 1)
		if middle {
			e.res.Add("applied_deletes_in_the_middle", 1)
			if liveBefore >= 3 {
				e.nontrivial = true
			}
		}
	case "rollback":
		e.tp.RollbackDelete(&rid, e.txn, c15Log())
		if st == c15Marked {
			e.res.Add("delete_rollbacks", 1)
		}
		e.slots[op.Slot].st = c15Live
	case "get":
		tpl, err := e.tp.GetTuple(&rid, c15Log(), nil, e.txn)
		if st == c15Live {
			if err != nil || tpl == nil {
				return c15v("readback", tags, "%s failed on a live row: %v", op, err)
			}
			if !bytes.Equal(tpl.Data(), e.slots[op.Slot].data) || int(tpl.Size()) != len(e.slots[op.Slot].data) {
				return c15v("readback", tags, "%s returned %d bytes that differ from the %d bytes stored", op, tpl.Size(), len(e.slots[op.Slot].data))
			}
			e.res.Add("reads_live", 1)
		} else {
			if err == nil && tpl != nil && tpl.Size() > 0 {
				return c15v("readback", tags, "%s returned a %d byte row for a row id that is not live (model state %d)", op, tpl.Size(), st)
			}
			e.res.Add("reads_dead", 1)
		}
	case "reinit":
		// the page object is initialised again as a new, empty page (what redo of a page allocation does on a recycled buffer):
		// nothing of the former content may remain visible
		e.tp.Init(types.PageID(c15PageID), types.PageID(c15PrevID), c15Log(), nil, e.txn, false)
		e.tp.SetNextPageID(types.PageID(c15NextID))
		e.slots, e.order = nil, nil
		e.res.Add("reinitialisations_of_a_used_page", 1)
	default:
		panic("c15: unknown op " + op.Op)
	}
	if v := e.checkRaw(tags, op); v != nil {
		return v
	}
	// API read-back: touched row + two random live rows; all live rows every 16 operations
	if op.Slot >= 0 && op.Slot < len(e.slots) && e.slots[op.Slot].st == c15Live && op.Op != "get" {
		if v := e.readBack(op.Slot, tags, op); v != nil {
			return v
		}
	}
	if len(e.slots) > 0 {
		if e.nops%16 == 0 {
			return e.readBackAll(tags, op)
		}
		for k := 0; k < 2; k++ {
			s := rng.Intn(len(e.slots))
			if e.slots[s].st == c15Live {
				if v := e.readBack(s, tags, op); v != nil {
					return v
				}
			}
		}
	}
	return nil
}

func (e *c15Exec) readBack(s int, tags []string, op c15Op) *c15Viol {
	rid := page.RID{PageID: types.PageID(c15PageID), SlotNum: uint32(s)}
	tpl, err := e.tp.GetTuple(&rid, c15Log(), nil, e.txn)
	e.res.Add("api_readbacks", 1)
	if err != nil || tpl == nil {
		return c15v("readback", tags, "after %s: GetTuple(slot %d) fails on a live row: %v", op, s, err)
	}
	if !bytes.Equal(tpl.Data(), e.slots[s].data) || int(tpl.Size()) != len(e.slots[s].data) {
		return c15v("readback", tags, "after %s: GetTuple(slot %d) returns %d bytes that differ from the %d bytes stored", op, s, tpl.Size(), len(e.slots[s].data))
	}
	return nil
}

func (e *c15Exec) readBackAll(tags []string, op c15Op) *c15Viol {
	for s := range e.slots {
		if e.slots[s].st == c15Live {
			if v := e.readBack(s, tags, op); v != nil {
				return v
			}
		}
	}
	return nil
}

// checkRaw parses the page bytes with the harness's own reader and compares with the model.
func (e *c15Exec) checkRaw(tags []string, op c15Op) *c15Viol {
	b := e.buf[:]
	e.res.Add("raw_layout_checks", 1)
	if !bytes.Equal(b[:16], e.hdr[:]) {
		return c15v("layout", tags, "after %s: page header bytes 0..15 changed: %x -> %x", op, e.hdr[:], b[:16])
	}
	fsp := int(binary.LittleEndian.Uint32(b[16:]))
	cnt := int(binary.LittleEndian.Uint32(b[20:]))
	if cnt != len(e.slots) {
		return c15v("layout", tags, "after %s: slot count %d, model %d", op, cnt, len(e.slots))
	}
	if int(e.tp.GetTupleCount()) != cnt || int(e.tp.GetFreeSpacePointer()) != fsp {
		return c15v("layout", tags, "after %s: accessors (count %d, fsp %d) disagree with the raw bytes (%d, %d)", op, e.tp.GetTupleCount(), e.tp.GetFreeSpacePointer(), cnt, fsp)
	}
	used := e.used()
	if fsp != c15PageSize-used {
		return c15v("freespace", tags, "after %s: free space pointer %d, but %d bytes are occupied (expected %d)", op, fsp, used, c15PageSize-used)
	}
	if c15Header+c15SlotEntry*cnt > fsp {
		return c15v("overlap", tags, "after %s: slot array ends at %d beyond the free space pointer %d", op, c15Header+c15SlotEntry*cnt, fsp)
	}
	spans := make([]uint32, 0, cnt)
	for s := 0; s < cnt; s++ {
		off := int(binary.LittleEndian.Uint32(b[c15Header+c15SlotEntry*s:]))
		raw := binary.LittleEndian.Uint32(b[c15Header+c15SlotEntry*s+4:])
		m := &e.slots[s]
		if m.st == c15Empty {
			if raw != 0 {
				return c15v("layout", tags, "after %s: slot %d is empty in the model but has size field %#x", op, s, raw)
			}
			continue
		}
		size := int(raw &^ c15DelMask)
		marked := raw&c15DelMask != 0
		if size != len(m.data) {
			return c15v("layout", tags, "after %s: slot %d has size %d, stored row has %d bytes", op, s, size, len(m.data))
		}
		if marked != (m.st == c15Marked) {
			return c15v("deletemark", tags, "after %s: slot %d delete mark is %v, model says %v", op, s, marked, m.st == c15Marked)
		}
		if off < fsp || off+size > c15PageSize {
			return c15v("overlap", tags, "after %s: slot %d spans [%d,%d) outside [fsp=%d,4096)", op, s, off, off+size, fsp)
		}
		if !bytes.Equal(b[off:off+size], m.data) {
			kind := "readback"
			if s != op.Slot || op.Op == "ins" {
				kind = "bystander"
			}
			return c15v(kind, tags, "after %s: bytes of slot %d at [%d,%d) differ from what was last stored (first diff at +%d)", op, s, off, off+size, c15firstDiff(b[off:off+size], m.data))
		}
		spans = append(spans, uint32(off)<<16|uint32(size))
	}
	sort.Slice(spans, func(i, j int) bool { return spans[i] < spans[j] })
	for i := 1; i < len(spans); i++ {
		pe := int(spans[i-1]>>16) + int(spans[i-1]&0xffff)
		if pe > int(spans[i]>>16) {
			return c15v("overlap", tags, "after %s: rows at [%d,%d) and [%d,...) overlap", op, spans[i-1]>>16, pe, spans[i]>>16)
		}
	}
	return nil
}

func c15firstDiff(a, b []byte) int {
	for i := range a {
		if i >= len(b) || a[i] != b[i] {
			return i
		}
	}
	return len(a)
}

// ---------------------------------------------------------------------------------------------
// generator

var c15Sizes = []int{1, 2, 7, 8, 9, 100, 1000, 2027, 2028, 2029, 2031, 2032, 4063, 4064}

func c15pickSize(rng *rand.Rand, exact int, profile int) int {
	var n int
	pExact := []int{8, 25, 10, 2, 6, 6}[profile] // how often the size is derived from the exact remaining space
	pNamed := []int{10, 10, 10, 3, 8, 8}[profile]
	switch r := rng.Intn(100); {
	case r < pExact:
		n = exact + []int{0, 0, 0, 1, -1, 8, -8}[rng.Intn(7)]
	case r < pExact+pNamed:
		n = c15Sizes[rng.Intn(len(c15Sizes))]
		if profile == 3 && rng.Intn(3) != 0 {
			n = c15Sizes[rng.Intn(5)]
		}
	default:
		switch profile {
		case 2: // few large rows
			n = 600 + rng.Intn(1500)
		case 3: // many tiny rows
			n = 1 + rng.Intn(9)
		default:
			switch rng.Intn(4) {
			case 0:
				n = 1 + rng.Intn(16)
			case 1:
				n = 1 + rng.Intn(400)
			default:
				n = 20 + rng.Intn(120)
			}
		}
	}
	if n < 1 {
		n = 1
	}
	if n > 4100 {
		n = 4100
	}
	return n
}

func (e *c15Exec) pickSlot(rng *rand.Rand, st int, preferMiddle bool) int {
	var cand, mid []int
	for i := range e.slots {
		if e.slots[i].st == st {
			cand = append(cand, i)
			if !e.isLowest(i) {
				mid = append(mid, i)
			}
		}
	}
	if len(cand) == 0 {
		return -1
	}
	if preferMiddle && len(mid) > 0 && rng.Intn(10) < 8 {
		return mid[rng.Intn(len(mid))]
	}
	return cand[rng.Intn(len(cand))]
}

// gen draws the next operation from the MODEL state (never from the page).
func (e *c15Exec) gen(rng *rand.Rand, profile int, fillNo uint64) c15Op {
	free := e.free()
	live, marked := e.count(c15Live), e.count(c15Marked)
	w := map[string]int{"ins": 30, "upd": 30, "mark": 7, "apply": 11, "rollback": 4, "get": 8, "dead": 4}
	switch profile {
	case 1: // fill the page to the last byte, then churn
		if free > 40 {
			w["ins"] = 70
		} else {
			w["ins"], w["upd"] = 25, 45
		}
	case 3:
		w["ins"] = 55
	case 4: // updates in the middle
		if live >= 4 {
			w["upd"], w["ins"] = 60, 12
		}
	case 5: // slot reuse
		w["apply"], w["ins"] = 25, 35
	}
	if live == 0 {
		w["upd"], w["mark"], w["get"] = 0, 0, 0
	}
	if live+marked == 0 {
		w["apply"] = 0
	}
	if marked == 0 {
		w["rollback"] = w["rollback"] / 4
		if live == 0 {
			w["rollback"] = 0
		}
	}
	if len(e.slots) >= 3 {
		w["reinit"] = 1
	}
	names := []string{"ins", "upd", "mark", "apply", "rollback", "get", "dead", "reinit"}
	tot := 0
	for _, n := range names {
		tot += w[n]
	}
	r := rng.Intn(tot)
	var op string
	for _, n := range names {
		if r < w[n] {
			op = n
			break
		}
		r -= w[n]
	}
	switch op {
	case "ins":
		exact := free - c15SlotEntry
		if e.firstEmpty() >= 0 && rng.Intn(2) == 0 {
			exact = free // what really fits when a slot is reused
		}
		o := c15Op{Op: "ins", Slot: -1, Fill: fillNo}
		if rng.Intn(5) == 0 {
			// the row names its row id (redo of an insert, undo of a delete): a new slot, an empty one, or one that is in use
			switch k := rng.Intn(4); {
			case k == 0 && e.firstEmpty() >= 0:
				var empties []int
				for i := range e.slots {
					if e.slots[i].st == c15Empty {
						empties = append(empties, i)
					}
				}
				o.At = empties[rng.Intn(len(empties))] + 1
				exact = free
			case k == 1 && len(e.slots) > 0:
				o.At = rng.Intn(len(e.slots)) + 1
			default:
				o.At = len(e.slots) + 1
				exact = free - c15SlotEntry
			}
		}
		o.Size = c15pickSize(rng, exact, profile)
		if o.At > 0 && rng.Intn(3) == 0 {
			o.Size = exact + []int{0, 1, -1, 7, 8, 9, -8}[rng.Intn(7)] // around the exact fit, with and without the slot entry
		}
		if o.Size < 1 {
			o.Size = 1
		}
		return o
	case "upd":
		s := e.pickSlot(rng, c15Live, true)
		old := len(e.slots[s].data)
		var n int
		switch r := rng.Intn(100); {
		case r < 12:
			n = old
		case r < 30:
			n = old + []int{1, -1, 8, -8, 2, -2}[rng.Intn(6)]
		case r < 40 && free <= 64:
			n = old + free // consume the last free bytes exactly
		default:
			n = c15pickSize(rng, free+old, profile)
		}
		if n < 1 {
			n = 1
		}
		undo := rng.Intn(2) == 0
		if n < old && rng.Intn(4) != 0 {
			undo = true // a shrink without the flag is a documented refusal; keep most shrinks effective
		}
		return c15Op{Op: "upd", Slot: s, Size: n, Fill: fillNo, Undo: undo}
	case "mark":
		return c15Op{Op: "mark", Slot: e.pickSlot(rng, c15Live, true)}
	case "apply":
		s := -1
		if marked > 0 && (live == 0 || rng.Intn(2) == 0) {
			s = e.pickSlot(rng, c15Marked, true)
		} else {
			s = e.pickSlot(rng, c15Live, true)
		}
		return c15Op{Op: "apply", Slot: s}
	case "rollback":
		if marked > 0 {
			return c15Op{Op: "rollback", Slot: e.pickSlot(rng, c15Marked, false)}
		}
		return c15Op{Op: "rollback", Slot: e.pickSlot(rng, c15Live, false)}
	case "get":
		return c15Op{Op: "get", Slot: e.pickSlot(rng, c15Live, false)}
	case "reinit":
		return c15Op{Op: "reinit", Slot: 0}
	}
	// "dead": update / mark / get aimed at an empty, marked or out-of-range row id: must change nothing
	s := len(e.slots) + rng.Intn(3)
	if len(e.slots) > 0 && rng.Intn(4) != 0 {
		s = rng.Intn(len(e.slots))
	}
	switch rng.Intn(3) {
	case 0:
		return c15Op{Op: "upd", Slot: s, Size: 1 + rng.Intn(40), Fill: fillNo, Undo: rng.Intn(2) == 0}
	case 1:
		return c15Op{Op: "mark", Slot: s}
	}
	return c15Op{Op: "get", Slot: s}
}

// ---------------------------------------------------------------------------------------------
// running, replaying, reducing

type c15Outcome struct {
	ops  []c15Op
	viol *c15Viol
	e    *c15Exec
}

func c15Generate(rng *rand.Rand, profile, n int, res *core.CaseResult) c15Outcome {
	e := c15New(res)
	out := c15Outcome{e: e}
	for i := 0; i < n; i++ {
		op := e.gen(rng, profile, uint64(i+1))
		out.ops = append(out.ops, op)
		if v := e.step(op, rng); v != nil {
			out.viol = v
			return out
		}
	}
	if v := e.readBackAll([]string{"end"}, c15Op{Op: "end"}); v != nil {
		out.viol = v
	}
	return out
}

func c15Replay(ops []c15Op, res *core.CaseResult) c15Outcome {
	e := c15New(res)
	out := c15Outcome{e: e}
	rng := rand.New(rand.NewSource(1))
	for _, op := range ops {
		if !e.applicable(op) {
			continue
		}
		out.ops = append(out.ops, op)
		if v := e.step(op, rng); v != nil {
			out.viol = v
			return out
		}
	}
	if v := e.readBackAll([]string{"end"}, c15Op{Op: "end"}); v != nil {
		out.viol = v
	}
	return out
}

// c15Reduce removes operations while a violation of the same kind remains (bounded delta debugging).
func c15Reduce(ops []c15Op, kind string) []c15Op {
	budget := 400
	still := func(c []c15Op) bool {
		budget--
		o := c15Replay(c, core.NewResult())
		return o.viol != nil && o.viol.kind == kind
	}
	cur := append([]c15Op(nil), ops...)
	for chunk := len(cur) / 2; chunk >= 1 && budget > 0; {
		removed := false
		for i := 0; i+chunk <= len(cur) && budget > 0; {
			c := append(append([]c15Op(nil), cur[:i]...), cur[i+chunk:]...)
			if still(c) {
				cur = c
				removed = true
			} else {
				i += chunk
			}
		}
		if !removed || chunk > len(cur) {
			chunk /= 2
		}
	}
	return cur
}

func c15Report(res *core.CaseResult, o c15Outcome, origin any) {
	ops := o.ops
	v := o.viol
	if len(ops) > 12 {
		red := c15Reduce(ops, v.kind)
		if ro := c15Replay(red, core.NewResult()); ro.viol != nil {
			ops, v = ro.ops, &c15Viol{ro.viol.kind, v.tags, ro.viol.detail + " [reduced from a " + fmt.Sprint(len(o.ops)) + "-operation sequence]"}
		}
	}
	res.Violate(v.kind, v.tags, map[string]any{"origin": origin, "ops": ops}, "%s", v.detail)
}

func c15bucket(n int) int {
	switch {
	case n < 8:
		return 0
	case n < 32:
		return 1
	case n < 128:
		return 2
	}
	return 3
}

func c15SeqsPerCase(env *core.Env) int {
	if env.Thorough() {
		return 10
	}
	return 1
}

func c15Run(env *core.Env, idx int) *core.CaseResult {
	res := core.NewResult()
	rng := env.Rand(idx)
	h := sha1.New()
	for k := 0; k < c15SeqsPerCase(env); k++ {
		profile := (idx + k) % c15Profiles
		n := 50 + rng.Intn(351)
		if profile == 3 {
			n = 300 + rng.Intn(301)
		}
		o := c15Generate(rng, profile, n, res)
		res.Add("sequences", 1)
		if o.e.nontrivial {
			res.Nontrivial = true
			res.Add("sequences_nontrivial", 1)
		}
		if o.e.zeroFree {
			res.Add("sequences_reaching_zero_free_bytes", 1)
		}
		res.Seen("slots_in_page_at_end", []string{"0-7", "8-31", "32-127", "128+"}[c15bucket(len(o.e.slots))])
		res.Seen("profiles", []string{"general", "fill-to-zero", "large-rows", "tiny-rows", "middle-updates", "slot-reuse"}[profile])
		b, _ := json.Marshal(o.ops)
		h.Write(b)
		if o.viol != nil {
			c15Report(res, o, map[string]any{"seed": env.Seed, "tier": env.Tier, "idx": idx, "sequence": k, "profile": profile})
		}
		if idx < 2 && k == 0 {
			n := len(o.ops)
			if n > 14 {
				n = 14
			}
			var s []string
			for _, op := range o.ops[:n] {
				s = append(s, op.String())
			}
			res.Sample = map[string]any{"profile": profile, "length": len(o.ops), "first_ops": s, "slots_at_end": len(o.e.slots), "free_at_end": o.e.free()}
		}
	}
	res.Key = hex.EncodeToString(h.Sum(nil)[:10])
	return res
}

func c15Witness(env *core.Env, raw json.RawMessage) *core.CaseResult {
	res := core.NewResult()
	var w struct {
		Ops []c15Op `json:"ops"`
	}
	if err := json.Unmarshal(raw, &w); err != nil || len(w.Ops) == 0 {
		res.Inconclusive = "witness has no ops"
		return res
	}
	o := c15Replay(w.Ops, res)
	if o.viol != nil {
		res.Violate(o.viol.kind, o.viol.tags, map[string]any{"ops": o.ops}, "%s", o.viol.detail)
	}
	return res
}

func init() {
	core.Register(&core.Check{
		ID:    "C15",
		Level: "exploration",
		Rule: "a case is a generated operation sequence (50-400 operations, 300-600 for the tiny-row profile; thorough: 10 sequences per case) on one access.TablePage over page.NewEmpty: " +
			"InsertTuple, UpdateTuple (grow/shrink/equal, both isRollbackOrUndo values), MarkDelete, ApplyDelete, RollbackDelete, GetTuple, plus operations aimed at dead or out-of-range row ids; " +
			"sizes from {1,2,7,8,9,100,1000,2027..2032,4063,4064, exact remaining space, +-1, +-8} and random; six profiles (general, fill to 0 free bytes, large rows, tiny rows, middle updates, slot reuse). " +
			"After every operation the raw page is parsed independently and compared with the map model (bytes of every row, delete marks, slot sizes, fsp == 4096 - occupied, bounds, pairwise disjoint, slot array below fsp, header bytes untouched) " +
			"and rows are read back through GetTuple. Non-trivial = the sequence contains a size-changing update or an applied delete of a row that is not the lowest in the page while >= 3 rows are live; distinct by hash of the operation list",
		Assumptions: []string{
			"the page is driven the way redo/undo drives it: transaction in recovery-phase mode (no lock manager), log manager with logging off",
			"ApplyDelete / RollbackDelete on an empty or out-of-range slot is a caller contract violation (the engine asserts) and is not generated",
			"which slot an insert picks is free as long as it is an empty or the next new slot; an insert into a reused slot may be refused while free < size+8 (don't-care band); a shrinking update without the rollback flag may be refused",
		},
		NumCases: func(env *core.Env) int {
			if env.Thorough() {
				return 30000
			}
			return 3000
		},
		RunCase: c15Run,
		Witness: c15Witness,
		Vacuity: func(env *core.Env, agg *core.Aggregate) []string {
			var v []string
			for _, k := range []string{"size_changing_updates_in_the_middle", "applied_deletes_in_the_middle", "slot_reuses", "page_exactly_full", "delete_rollbacks", "updates_refused_no_space", "inserts_refused"} {
				if agg.Stats[k] == 0 {
					v = append(v, "no "+k+" observed")
				}
			}
			return v
		},
	})
}
