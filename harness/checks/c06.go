package checks

// C06 - every supported single-table statement returns the reference answer (differential against refmodel).

import (
	"fmt"
	"math/rand"
	"runtime/debug"
	"sort"
	"strings"
	"time"

	"verifharness/internal/core"
	"verifharness/internal/gen"
	rm "verifharness/internal/refmodel"
	"verifharness/internal/sqlx"
)

func init() {
	core.Register(&core.Check{
		ID:    "C06",
		Level: "exploration",
		Rule: "case = one generated schema (1-5 columns over INT/FLOAT/VARCHAR; created through SQL = all columns skip-list indexed, or through the catalog API with none/skip-list/unique/B-tree indexes) + row multiset " +
			"(duplicates, boundary values, NULLs/negatives through the plan API, long strings for multi-page tables) + generated statements: SELECT with AND/OR predicate trees of 1-5 comparisons (literals = stored values +-1; every permutation of AND-only conjunct lists, capped at 24), " +
			"each executed with no statistics, fresh statistics and stale statistics and once forced onto the scan path (OR <false>), then INSERT/UPDATE/DELETE statements each followed by a full-table comparison. Oracle = independent evaluator (multisets, bit-exact values, written column order). " +
			"Non-trivial statement = plan contains an index range scan and the predicate has >= 2 comparisons on one column, or the answer is neither empty nor the whole table; distinct by (schema,statement text) hash",
		Assumptions: []string{"NULL compared with <> is don't-care (engine answers true, SQL says unknown; property does not settle it)", "literal forms the parser mis-reads (-5, 1e10, NULL) are outside the accepted forms and are stored through the plan API", "result order is not compared (no ORDER BY)"},
		NumCases: func(env *core.Env) int {
			if env.Thorough() {
				return 6000
			}
			return 320
		},
		RunCase:     c06Run,
		Witness:     runSQLWitness,
		CaseTimeout: 40 * time.Second,
	})
}

type c06State struct {
	env      *core.Env
	r        *rand.Rand
	res      *core.CaseResult
	db       *sqlx.DB
	path     string
	memKB    int
	t        *rm.Table
	via      string
	idx      []string
	nDB      int
	schema   string
	dead     bool
	dmlTags  []string
	sentinel bool
	btreeExtreme bool // a B-tree-indexed INT column received a value >= 2^31-65536 (only in sentinel cases)
	longIdx  bool // strings of more than 900 bytes may be stored in indexed columns
}

func (s *c06State) open() {
	s.nDB++
	s.path = fmt.Sprintf("%s/c06_%d", s.env.TmpDir, s.nDB)
	s.db = sqlx.Open(s.path, s.memKB, sqlx.Options{})
	if s.via == "sql" {
		if err := s.db.CreateTableSQL(s.t.Name, s.t.Cols); err != nil {
			panic(fmt.Sprintf("create table failed: %v", err))
		}
	} else {
		s.db.CreateTableAPI(s.t.Name, s.t.Cols, s.idx)
	}
	s.dead = false
}

// rebuild makes a fresh database holding the model's rows (after an engine panic the old instance is unusable).
func (s *c06State) rebuild() {
	msg, panicked := guarded(func() {
		s.open()
		if len(s.t.Rows) > 0 {
			txn := s.db.Begin()
			for i := 0; i < len(s.t.Rows); i += 50 {
				j := i + 50
				if j > len(s.t.Rows) {
					j = len(s.t.Rows)
				}
				s.db.InsertPlan(txn, s.t.Name, s.t.Rows[i:j])
			}
			s.db.Commit(txn)
		}
	})
	if panicked {
		// the model's rows cannot be loaded again (only seen inside the trigger regions of listed findings, e.g. over-long indexed strings)
		s.res.Violate("dml-panic", append(s.tagsFor(&rm.Pred{Col: s.t.Cols[0].Name, Op: rm.Ne}, nil), "insert"), s.caseDesc("reload of the model rows", nil), "reloading the table panicked: %s", msg)
		s.t.Rows = nil
		s.open()
	}
}

// guarded runs f, converting an engine panic into (panicked=true).
func guarded(f func()) (msg string, panicked bool) {
	defer func() {
		if p := recover(); p != nil {
			msg = fmt.Sprint(p) + " @ " + engineFrames(debug.Stack())
			panicked = true
		}
	}()
	f()
	return "", false
}

func (s *c06State) tagsFor(p *rm.Pred, cols []string) []string {
	tags := map[string]bool{"via-" + s.via: true}
	if s.sentinel {
		tags["sentinel-values"] = true
	}
	perCol := map[string]int{}
	for _, l := range p.Leaves() {
		if l.Op != rm.Ne {
			perCol[l.Col]++
		}
		ci := s.t.ColIdx(l.Col)
		if s.t.Cols[ci].K == rm.KStr && l.Op >= rm.Lt {
			tags["varchar-range"] = true
		}
		if l.LitLeft {
			tags["literal-left"] = true
		}
		if s.idx[ci] != "" {
			tags["index-"+s.idx[ci]] = true
		}
	}
	for _, n := range perCol {
		if n >= 2 {
			tags["multi-bound"] = true
		}
	}
	if p.HasOr() {
		tags["has-or"] = true
	}
	// select list in table order?
	last := -1
	for _, c := range cols {
		i := s.t.ColIdx(c)
		if i < last {
			tags["select-reordered"] = true
		}
		last = i
	}
	for _, r := range s.t.Rows {
		for i, c := range r {
			if c.Null {
				tags["null-data"] = true
				if s.idx[i] != "" {
					tags["null-in-indexed-column"] = true
				}
			}
		}
	}
	if s.longIdx {
		tags["long-indexed-varchar"] = true
	}
	if s.btreeExtreme {
		tags["btree-int-extreme"] = true
	}
	var out []string
	for k := range tags {
		out = append(out, k)
	}
	sort.Strings(out)
	return out
}

func (s *c06State) caseDesc(sql string, extra map[string]any) map[string]any {
	m := map[string]any{"seed": s.env.Seed, "tier": s.env.Tier, "schema": s.schema, "via": s.via, "indexes": s.idx, "rows": len(s.t.Rows), "memKB": s.memKB, "statement": sql}
	if len(s.t.Rows) <= 12 {
		var rows []string
		for _, r := range s.t.Rows {
			rows = append(rows, r.String())
		}
		m["table"] = rows
	}
	for k, v := range extra {
		m[k] = v
	}
	return m
}

// checkSelect executes one SELECT and compares it with the model.
func (s *c06State) checkSelect(p *rm.Pred, cols []string, star bool, phase string, forceScan bool) {
	if s.dead {
		s.rebuild()
	}
	list := strings.Join(cols, ", ")
	if star {
		list = "*"
	}
	where := ""
	q := p
	if p != nil {
		if forceScan {
			q = stripLitLeft(p)
			where = " WHERE (" + q.SQL("") + ") OR id < 0"
		} else {
			where = " WHERE " + p.SQL("")
		}
	}
	sql := "SELECT " + list + " FROM " + s.tname() + where + ";"
	must, may := rm.Select(s.t, p, cols)
	var r sqlx.Result
	useAuto := s.r.Intn(4) == 0
	msg, panicked := guarded(func() {
		if useAuto {
			r = s.db.Auto(sql)
			r.Shape, _ = s.db.PlanOf(sql)
		} else {
			txn := s.db.Begin()
			r = s.db.Exec(txn, sql)
			if r.Aborted {
				s.db.Abort(txn)
			} else {
				s.db.Commit(txn)
			}
		}
	})
	s.res.Add("select_statements", 1)
	s.res.Add("select_"+phase, 1)
	var tags []string
	if p != nil {
		tags = s.tagsFor(p, cols)
	} else {
		tags = s.tagsFor(&rm.Pred{Logic: "AND", L: &rm.Pred{Col: s.t.Cols[0].Name, Op: rm.Ne}, R: &rm.Pred{Col: s.t.Cols[0].Name, Op: rm.Ne}}, cols)
	}
	if forceScan {
		tags = append(tags, "forced-scan")
	}
	if !star {
		seenCol := map[string]bool{}
		for _, c := range cols {
			if seenCol[c] {
				tags = append(tags, "select-list-repeats-a-column")
				s.res.Add("select_lists_naming_a_column_twice", 1)
				break
			}
			seenCol[c] = true
		}
	}
	switch {
	case panicked:
		s.dead = true
		s.res.Violate("panic", tags, s.caseDesc(sql, map[string]any{"phase": phase}), "SELECT panicked: %s", msg)
		return
	case r.Err != nil:
		s.res.Violate("error", tags, s.caseDesc(sql, map[string]any{"phase": phase}), "SELECT failed: %v", r.Err)
		return
	case r.Aborted:
		s.res.Violate("abort", tags, s.caseDesc(sql, map[string]any{"phase": phase}), "single-user SELECT aborted")
		return
	}
	s.res.Seen("plan_shapes", r.Shape)
	if d := rm.DiffMultiset(r.Rows, must, may); d != "" {
		kind := "wrong-answer-" + rm.DiffKind(r.Rows, must, may)
		s.res.Violate(kind, tags, s.caseDesc(sql, map[string]any{"phase": phase, "plan": r.Shape}), "%s [plan %s, %s statistics]: %s", sql, r.Shape, phase, d)
	}
	// non-triviality
	multi := false
	if p != nil {
		per := map[string]int{}
		for _, l := range p.Leaves() {
			per[l.Col]++
			if per[l.Col] >= 2 {
				multi = true
			}
		}
	}
	if (strings.Contains(r.Shape, "IndexRangeScan") && multi) || (len(must) > 0 && len(must) < len(s.t.Rows)) {
		s.res.Nontrivial = true
		s.res.Add("nontrivial_statements", 1)
	}
	if strings.Contains(r.Shape, "IndexRangeScan") {
		s.res.Add("index_path_selects", 1)
	} else {
		s.res.Add("scan_path_selects", 1)
	}
}

func stripLitLeft(p *rm.Pred) *rm.Pred {
	if p == nil {
		return nil
	}
	q := *p
	q.LitLeft = false
	q.L, q.R = stripLitLeft(p.L), stripLitLeft(p.R)
	return &q
}

// tname spells the table name for a statement: a quarter of the statements use another letter case than the catalog's
// lower case (table names are case-insensitive in the front end of the pinned tree).
func (s *c06State) tname() string {
	n := s.t.Name
	switch s.r.Intn(8) {
	case 0:
		s.res.Add("statements_with_table_name_in_other_case", 1)
		return strings.ToUpper(n)
	case 1:
		s.res.Add("statements_with_table_name_in_other_case", 1)
		return strings.ToUpper(n[:1]) + n[1:]
	}
	return n
}

func (s *c06State) fullCompare(after string) {
	if s.dead {
		return
	}
	var r sqlx.Result
	msg, panicked := guarded(func() { r = s.db.ScanAllAuto(s.t.Name) })
	if panicked {
		s.dead = true
		s.res.Violate("panic", []string{"via-" + s.via}, s.caseDesc(after, nil), "full scan after DML panicked: %s", msg)
		return
	}
	if d := rm.DiffMultiset(r.Rows, s.t.Rows, nil); d != "" {
		s.res.Violate("table-content-"+rm.DiffKind(r.Rows, s.t.Rows, nil), s.dmlTags, s.caseDesc(after, nil), "table content after %q differs from the model: %s", after, d)
		// resynchronise so that later statements are judged on their own
		s.dead = true
	}
}

// c06LiteralForms: monitor of the SQL front end's literal handling. Random members of the baseline literal class
// (gen.BaselineLit) must be read back by the real parser as exactly the value written.
func c06LiteralForms(r *rand.Rand, res *core.CaseResult, n int) {
	alphabet := []string{"a", "b", "Z", "0", "9", " ", " ", "  ", "\t", "_", "-", ".", ",", ";", "(", ")", "=", "<", ">", "%", "\"", "select", "NULL", "and", "or", "日", "é", "x  y"}
	for i := 0; i < n; i++ {
		var c rm.Cell
		switch r.Intn(4) {
		case 0:
			c = rm.Int(int32(r.Uint32() >> 1))
		case 1:
			c = rm.Float([]float32{float32(r.Intn(100000)) / 8, float32(r.Intn(1000)) * 1e-6, float32(r.Intn(1000)) * 1e6, r.Float32() * 1e20, float32(r.Intn(10))}[r.Intn(5)])
		default:
			var b strings.Builder
			for k := r.Intn(8); k >= 0; k-- {
				b.WriteString(alphabet[r.Intn(len(alphabet))])
			}
			c = rm.Str(b.String())
		}
		if !gen.BaselineLit(c) {
			continue
		}
		res.Add("literal_forms_probed", 1)
		if !gen.LitRoundTrips(c) {
			lit, _ := c.SQLLit()
			res.Violate("literal-misread", []string{"literal-forms"}, map[string]any{"literal": lit}, "the SQL front end does not read the literal %s back as the value written (%s)", lit, c.Canon())
			return
		}
	}
}

func c06Run(env *core.Env, idx int) *core.CaseResult {
	r := env.Rand(idx)
	res := core.NewResult()
	if idx%16 == 0 {
		c06LiteralForms(r, res, 1500)
	}
	s := &c06State{env: env, r: r, res: res}
	withID := r.Intn(6) != 0
	cols := gen.Schema(r, withID, 2+r.Intn(4))
	s.t = &rm.Table{Name: fmt.Sprintf("t%d", idx%7), Cols: cols}
	s.via = "sql"
	s.idx = make([]string, len(cols))
	api := r.Intn(3) == 0
	long := r.Intn(4) == 0
	if api {
		s.via = "api"
	}
	for i, c := range cols {
		if !api {
			s.idx[i] = "skiplist"
			continue
		}
		switch r.Intn(4) {
		case 0:
			s.idx[i] = ""
		case 1:
			s.idx[i] = "skiplist"
		case 2:
			s.idx[i] = "btree"
			if c.K == rm.KStr {
				long = false
			}
		default:
			if c.Name == "id" {
				s.idx[i] = "uniq"
			} else {
				s.idx[i] = "skiplist"
			}
		}
	}
	s.memKB = []int{256, 512, 1024, 4096}[r.Intn(4)]
	apiVals := r.Intn(5) < 2
	apiNoNull := apiVals && r.Intn(2) == 0 // API-only values (negatives, -0.0, denormals, ...) without NULLs: NULL in an indexed column is a listed finding that would cover them
	s.sentinel = r.Intn(6) == 0
	s.longIdx = long && r.Intn(3) == 0
	nRows := []int{0, 1, 2, 3, 6, 12, 25, 40, 80, 200}[r.Intn(10)]
	if long && nRows > 40 {
		nRows = 40
	}
	var sd []string
	for i, c := range cols {
		sd = append(sd, c.Name+" "+c.K.String()+"/"+s.idx[i])
	}
	s.schema = strings.Join(sd, ", ")
	res.Seen("schemas", s.schema)
	s.open()

	// rows
	ids := r.Perm(nRows * 2)
	btreeStr := map[int]bool{}
	for i, c := range cols {
		if s.idx[i] == "btree" && c.K == rm.KStr {
			btreeStr[i] = true
		}
	}
	mkRow := func(id int) rm.Row {
		row := make(rm.Row, len(cols))
		for i, c := range cols {
			if c.Name == "id" {
				row[i] = rm.Int(int32(id))
				continue
			}
			v := gen.Value(r, c.K, apiVals, long)
			for apiNoNull && v.Null {
				v = gen.Value(r, c.K, apiVals, long)
			}
			if s.sentinel && r.Intn(5) == 0 {
				if sv, ok := gen.SentinelValue(r, c.K); ok {
					v = sv
				}
			}
			if btreeStr[i] && (len(v.S) > 20 || v.Null) {
				v = rm.Str("k")
			}
			if s.idx[i] != "" && len(v.S) > 900 && !s.longIdx {
				v = rm.Str(v.S[:100+r.Intn(800)])
			}
			if s.idx[i] == "btree" && v.Null {
				v = gen.Value(r, c.K, false, false)
			}
			if s.idx[i] == "btree" && gen.BtreeExtremeInt(v) {
				if s.sentinel {
					s.btreeExtreme = true
				} else {
					v = rm.Int(v.I - 70000)
				}
			}
			row[i] = v
		}
		// a row has to fit into one 4 KB heap page: keep generated rows below that (over-wide rows have their own class below)
		for c06RowWidth(row) > c06MaxRowWidth {
			for i := range row {
				if len(row[i].S) > 200 {
					row[i] = rm.Str(row[i].S[:len(row[i].S)/2])
				}
			}
		}
		return row
	}
	insert := func(rows []rm.Row) bool {
		sql, ok := sqlx.InsertSQL(s.tname(), cols, rows)
		if ok && len(cols) > 1 && r.Intn(3) == 0 {
			// column list written in another order than the table's columns
			sql, ok = sqlx.InsertSQLPerm(s.tname(), cols, rows, r.Perm(len(cols)))
			res.Add("insert_sql_with_permuted_column_list", 1)
		}
		for _, row := range rows {
			for _, c := range row {
				if !c.Null && !gen.LitAccepted(c) {
					ok = false
				}
				if c.Null {
					ok = false
				}
			}
		}
		var rr sqlx.Result
		msg, panicked := guarded(func() {
			if ok {
				rr = s.db.Auto(sql)
				res.Add("insert_sql", 1)
			} else {
				txn := s.db.Begin()
				rr = s.db.InsertPlan(txn, s.t.Name, rows)
				if rr.Aborted {
					s.db.Abort(txn)
				} else {
					s.db.Commit(txn)
				}
				sql = fmt.Sprintf("InsertPlanNode%v", rows)
				if len(sql) > 300 {
					sql = sql[:300] + "..."
				}
				res.Add("insert_plan_api", 1)
			}
		})
		s.dmlTags = append(s.tagsFor(&rm.Pred{Col: cols[0].Name, Op: rm.Ne}, nil), "insert")
		if panicked || rr.Err != nil || rr.Aborted {
			res.Violate(dmlKind(panicked, rr), s.dmlTags, s.caseDesc(sql, nil), "INSERT failed: panic=%q err=%v aborted=%v", msg, rr.Err, rr.Aborted)
			s.dead = true
			return false
		}
		for _, row := range rows {
			s.t.Rows = append(s.t.Rows, row.Clone())
		}
		return true
	}
	for i := 0; i < nRows; {
		k := 1
		if r.Intn(3) == 0 {
			k = 1 + r.Intn(5)
		}
		var batch []rm.Row
		for j := 0; j < k && i < nRows; j++ {
			batch = append(batch, mkRow(ids[i]))
			i++
		}
		if !insert(batch) {
			s.rebuild()
		}
	}
	s.fullCompare("initial inserts")
	if idx < 3 {
		res.Sample = map[string]any{"schema": s.schema, "via": s.via, "rows": len(s.t.Rows), "memKB": s.memKB}
	}

	nPreds := 14
	if env.Thorough() {
		nPreds = 30
	}
	type stmt struct {
		p     *rm.Pred
		cols  []string
		star  bool
		perms [][]int
	}
	var stmts []stmt
	for i := 0; i < nPreds; i++ {
		n := 1 + r.Intn(5)
		andOnly := r.Intn(3) != 0
		focus := -1
		if r.Intn(2) == 0 {
			focus = r.Intn(len(cols))
		}
		p := gen.Pred(r, s.t, n, andOnly, focus)
		st := stmt{p: p}
		if r.Intn(3) == 0 {
			st.star = true
			for _, c := range cols {
				st.cols = append(st.cols, c.Name)
			}
		} else {
			perm := r.Perm(len(cols))
			k := 1 + r.Intn(len(cols))
			for _, j := range perm[:k] {
				st.cols = append(st.cols, cols[j].Name)
			}
			// every fourth written list names a column more than once (at the end, or anywhere): the optimizer decides
			// whether a final projection is needed by comparing the list with the columns the scan delivers, and a
			// repeated column makes the two lists equally long without being equal (seeded change C06j)
			if r.Intn(4) == 0 {
				for d := 1 + r.Intn(2); d > 0; d-- {
					dup := st.cols[r.Intn(len(st.cols))]
					if r.Intn(2) == 0 {
						st.cols = append(st.cols, dup)
					} else {
						at := r.Intn(len(st.cols) + 1)
						st.cols = append(st.cols[:at], append([]string{dup}, st.cols[at:]...)...)
					}
				}
			}
		}
		if !p.HasOr() && n >= 2 {
			st.perms = gen.Permutations(r, n, 24)
		}
		stmts = append(stmts, st)
	}
	runSelects := func(phase string) {
		for i, st := range stmts {
			if st.perms != nil {
				leaves := st.p.Leaves()
				for _, pm := range st.perms {
					ord := make([]*rm.Pred, len(pm))
					for k, j := range pm {
						ord[k] = leaves[j]
					}
					s.checkSelect(gen.AndChain(ord), st.cols, st.star, phase, false)
				}
			} else {
				s.checkSelect(st.p, st.cols, st.star, phase, false)
			}
			if withID && i%2 == 0 {
				s.checkSelect(st.p, st.cols, st.star, phase, true)
			}
		}
		// no WHERE
		s.checkSelect(nil, stmts[0].cols, stmts[0].star, phase, false)
	}
	runSelects("no-stats")
	if !s.dead {
		if msg, panicked := guarded(func() { s.db.UpdateStats() }); panicked {
			res.Violate("panic", []string{"stats-update"}, s.caseDesc("statistics update", nil), "statistics update panicked: %s", msg)
			s.dead = true
		}
	}
	runSelects("fresh-stats")

	// DML
	nDML := 10
	if env.Thorough() {
		nDML = 25
	}
	nextID := nRows*2 + 1
	for i := 0; i < nDML; i++ {
		if s.dead {
			s.rebuild()
		}
		switch r.Intn(5) {
		case 0, 1: // insert
			k := 1 + r.Intn(3)
			var batch []rm.Row
			for j := 0; j < k; j++ {
				batch = append(batch, mkRow(nextID))
				nextID++
			}
			if insert(batch) {
				s.fullCompare("INSERT")
			}
		case 2: // delete
			p := gen.Pred(r, s.t, 1+r.Intn(3), r.Intn(2) == 0, -1)
			mt := s.t.Clone()
			n, dc := rm.Delete(mt, p)
			if dc > 0 {
				continue
			}
			sql := "DELETE FROM " + s.tname() + " WHERE " + p.SQL("") + ";"
			s.runDML(sql, p, mt, n)
		default: // update
			p := gen.Pred(r, s.t, 1+r.Intn(3), r.Intn(2) == 0, -1)
			set := map[string]rm.Cell{}
			var sets []string
			k := 1
			if r.Intn(3) == 0 {
				k = 2
			}
			for _, j := range r.Perm(len(cols))[:min(k, len(cols))] {
				c := cols[j]
				if s.idx[j] == "uniq" {
					continue
				}
				var v rm.Cell
				for tries := 0; tries < 20; tries++ {
					v = gen.Value(r, c.K, false, long && r.Intn(2) == 0)
					if btreeStr[j] && len(v.S) > 20 {
						continue
					}
					if s.idx[j] != "" && len(v.S) > 900 && !s.longIdx {
						continue
					}
					if s.idx[j] == "btree" && gen.BtreeExtremeInt(v) {
						continue
					}
					if gen.LitAccepted(v) {
						break
					}
				}
				if !gen.LitAccepted(v) {
					continue
				}
				lit, _ := v.SQLLit()
				set[c.Name] = v
				sets = append(sets, c.Name+" = "+lit)
			}
			if len(sets) == 0 {
				continue
			}
			mt := s.t.Clone()
			n, dc := rm.Update(mt, p, set)
			if dc > 0 {
				continue
			}
			tooWide := false
			for _, row := range mt.Rows {
				if c06RowWidth(row) > c06MaxRowWidth {
					tooWide = true
				}
			}
			if tooWide {
				continue
			}
			sql := "UPDATE " + s.tname() + " SET " + strings.Join(sets, ", ") + " WHERE " + p.SQL("") + ";"
			s.runDML(sql, p, mt, n)
		}
	}
	// rows wider than a heap page cannot be stored: the statement has to be REJECTED (error or abort) and must leave the
	// table unchanged - not hang, not panic, not store something else. Only for tables whose VARCHAR column is not indexed
	// (an over-long indexed string is the listed skip-list finding) and that carry a non-indexed VARCHAR column.
	if idx%3 == 0 && !s.dead {
		for j, c := range cols {
			if c.K != rm.KStr || s.idx[j] != "" {
				continue
			}
			wide := mkRow(nextID)
			nextID++
			wide[j] = rm.Str(strings.Repeat("w", 4100+r.Intn(3000)))
			ok := true
			for _, cell := range wide {
				if cell.Null || !gen.LitAccepted(cell) {
					ok = false
				}
			}
			if !ok {
				break
			}
			sql, _ := sqlx.InsertSQL(s.t.Name, cols, []rm.Row{wide})
			var rr sqlx.Result
			msg, panicked := guarded(func() { rr = s.db.Auto(sql) })
			res.Add("over_wide_row_statements", 1)
			s.dmlTags = []string{"row-wider-than-page", "insert", "via-" + s.via}
			if panicked {
				res.Violate("dml-panic", s.dmlTags, s.caseDesc(clipStr(sql, 200), nil), "INSERT of a row wider than a page panicked: %s", msg)
				s.dead = true
				break
			}
			if rr.Err == nil && !rr.Aborted {
				res.Violate("over-wide-row-accepted", s.dmlTags, s.caseDesc(clipStr(sql, 200), nil), "INSERT of a %d-byte row was reported as successful", c06RowWidth(wide))
			} else {
				res.Add("over_wide_rows_rejected", 1)
			}
			s.fullCompare("rejected over-wide INSERT")
			if len(s.t.Rows) > 0 && !s.dead && withID {
				// growing UPDATE beyond the page width
				target := s.t.Rows[r.Intn(len(s.t.Rows))]
				if !target[0].Null {
					usql := fmt.Sprintf("UPDATE %s SET %s = '%s' WHERE id = %d;", s.t.Name, c.Name, strings.Repeat("u", 4100+r.Intn(2000)), target[0].I)
					msg, panicked := guarded(func() { rr = s.db.Auto(usql) })
					res.Add("over_wide_row_statements", 1)
					s.dmlTags = []string{"row-wider-than-page", "update", "via-" + s.via}
					if panicked {
						res.Violate("dml-panic", s.dmlTags, s.caseDesc(clipStr(usql, 200), nil), "UPDATE to a row wider than a page panicked: %s", msg)
						s.dead = true
						break
					}
					if rr.Err == nil && !rr.Aborted {
						res.Violate("over-wide-row-accepted", s.dmlTags, s.caseDesc(clipStr(usql, 200), nil), "UPDATE to an over-wide row was reported as successful")
					} else {
						res.Add("over_wide_rows_rejected", 1)
					}
					s.fullCompare("rejected over-wide UPDATE")
				}
			}
			break
		}
	}
	// numeric literals of the other numeric type: a FLOAT column compared with an integer literal, an INT column with a decimal
	// literal (both are forms the SQL front end parses). Meaning: numeric comparison. Listed finding on the pinned tree.
	if idx%10 == 3 && !s.dead {
		for j, c := range cols {
			if c.K == rm.KStr {
				continue
			}
			lit, litF := "", 0.0
			if c.K == rm.KFloat {
				n := r.Intn(12)
				lit, litF = fmt.Sprintf("%d", n), float64(n)
			} else {
				n := float64(r.Intn(40))/4 + 0.5
				lit, litF = fmt.Sprintf("%g", n), n
				if !strings.Contains(lit, ".") {
					lit += ".5"
					litF += 0.5
				}
			}
			op := []string{">=", "<=", "=", ">", "<"}[r.Intn(5)]
			sql := fmt.Sprintf("SELECT %s FROM %s WHERE %s %s %s;", cols[0].Name, s.t.Name, c.Name, op, lit)
			var want []rm.Row
			for _, row := range s.t.Rows {
				if row[j].Null {
					continue
				}
				v := float64(row[j].I)
				if c.K == rm.KFloat {
					v = float64(row[j].F)
				}
				ok := false
				switch op {
				case ">=":
					ok = v >= litF
				case "<=":
					ok = v <= litF
				case "=":
					ok = v == litF
				case ">":
					ok = v > litF
				default:
					ok = v < litF
				}
				if ok {
					want = append(want, rm.Row{row[0]})
				}
			}
			var rr sqlx.Result
			msg, panicked := guarded(func() { rr = s.db.Auto(sql) })
			res.Add("statements_with_numeric_literal_of_the_other_type", 1)
			tags := []string{"numeric-literal-of-other-type", "via-" + s.via}
			switch {
			case panicked:
				res.Violate("panic", tags, s.caseDesc(sql, nil), "%s panicked: %s", sql, clipStr(msg, 300))
				s.dead = true
			case rr.Err != nil || rr.Aborted:
				res.Violate("abort", tags, s.caseDesc(sql, nil), "%s failed: err=%v aborted=%v", sql, rr.Err, rr.Aborted)
			default:
				if d := rm.DiffMultiset(rr.Rows, want, nil); d != "" {
					res.Violate("wrong-answer-"+rm.DiffKind(rr.Rows, want, nil), tags, s.caseDesc(sql, nil), "%s: %s", sql, d)
				}
			}
			if s.dead {
				break
			}
		}
	}
	// stale statistics: table changed since the last statistics pass
	stmts = stmts[:len(stmts)/2]
	runSelects("stale-stats")
	res.Key = fmt.Sprintf("%s|%d|%d", s.schema, len(s.t.Rows), idx)
	return res
}

func (s *c06State) runDML(sql string, p *rm.Pred, after *rm.Table, affected int) {
	var rr sqlx.Result
	msg, panicked := guarded(func() {
		if s.r.Intn(2) == 0 {
			rr = s.db.Auto(sql)
			rr.Shape = "auto"
		} else {
			txn := s.db.Begin()
			rr = s.db.Exec(txn, sql)
			if rr.Aborted {
				s.db.Abort(txn)
			} else {
				s.db.Commit(txn)
			}
		}
	})
	s.res.Add("dml_statements", 1)
	tags := s.tagsFor(p, nil)
	kind := strings.ToLower(strings.Fields(sql)[0])
	tags = append(tags, kind)
	s.dmlTags = tags
	if panicked || rr.Err != nil || rr.Aborted {
		s.res.Violate(dmlKind(panicked, rr), tags, s.caseDesc(sql, nil), "%s failed in a single-user run: panic=%q err=%v aborted=%v", sql, msg, rr.Err, rr.Aborted)
		s.dead = true
		return
	}
	s.res.Seen("dml_plan_shapes", rr.Shape)
	if affected > 0 {
		s.res.Add("dml_with_effect", 1)
		s.res.Nontrivial = true
	}
	s.t.Rows = after.Rows
	s.fullCompare(sql)
}

// c06RowWidth is a conservative estimate of the stored size of a row (value bytes + per-value framing).
func c06RowWidth(row rm.Row) int {
	n := 0
	for _, c := range row {
		n += 8 + len(c.S)
	}
	return n
}

const c06MaxRowWidth = 3900

func dmlKind(panicked bool, r sqlx.Result) string {
	switch {
	case panicked:
		return "dml-panic"
	case r.Aborted:
		return "dml-abort"
	}
	return "dml-error"
}

// engineFrames extracts the innermost engine function names from a stack dump (for triage and finding keys).
func engineFrames(stack []byte) string {
	var out []string
	for _, line := range strings.Split(string(stack), "\n") {
		if strings.HasPrefix(line, "github.com/ryogrid/") {
			f := line
			if i := strings.LastIndex(f, "("); i > 0 {
				f = f[:i]
			}
			f = strings.TrimPrefix(f, "github.com/ryogrid/SamehadaDB/lib/")
			out = append(out, f)
			if len(out) >= 4 {
				break
			}
		}
	}
	return strings.Join(out, " < ")
}
