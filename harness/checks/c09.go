package checks

// C09 - a clean shutdown and reopen changes nothing observable.
// C10 - tables keep their identity, schema and data across restarts (clean, crash-like close, crash image).
// Shared driver: a file-backed, recorded multi-table session with DDL + DML, query batteries and restarts.

import (
	"fmt"
	"math/rand"
	"os"
	"sort"
	"strings"
	"time"
	"verifharness/internal/crashlab"

	"github.com/ryogrid/SamehadaDB/lib/types"

	"verifharness/internal/core"
	"verifharness/internal/gen"
	"verifharness/internal/rec"
	rm "verifharness/internal/refmodel"
	"verifharness/internal/sqlx"
)

func init() {
	core.Register(&core.Check{
		ID:    "C09",
		Level: "exploration",
		Rule: "case = one file-backed session: 1-3 tables (SQL-created: skip list on every column; API-created: none / skip list / unique / B-tree / hash per column) filled and changed by generated INSERT / UPDATE / DELETE statements; then 2-4 cycles of: query battery " +
			"(per table: full scan, point and range queries per column on the optimizer's path and on the forced scan path, one join per table pair) -> SamehadaDB.Shutdown() -> reopen -> the same battery -> more DML. " +
			"Oracle: battery before == battery after == reference model; the reopened database must accept the following DML with the same agreement. " +
			"Non-trivial cycle = some table has >= 2 heap pages or >= 40 rows and the battery had a non-empty index-path answer before the shutdown; distinct by (case, cycle)",
		Assumptions: []string{"sentinel values, NULLs and over-long indexed strings are not generated here (listed findings of C06)", "hash-indexed columns are queried by point lookups through the index API only"},
		NumCases: func(env *core.Env) int {
			if env.Thorough() {
				return 600
			}
			return 48
		},
		RunCase:     func(env *core.Env, idx int) *core.CaseResult { return sessCase(env, idx, "C09") },
		Witness:     runSQLWitness,
		CaseTimeout: 40 * time.Second,
	})
	core.Register(&core.Check{
		ID:    "C10",
		Level: "exploration",
		Rule: "case = one file-backed, recorded session: a sequence of 2-6 CREATE TABLE statements (1-6 columns over INT/FLOAT/VARCHAR, names differing in case, SQL and catalog API) interleaved with DML and with restarts of three kinds: clean Shutdown(), crash-like close (files closed without flush) and " +
			"a crash image at a random prefix of the recorded I/O after the last DDL returned. After every restart and after every later CREATE TABLE: each table is reachable by name through SQL, its catalog schema (column names, types, order) equals the declared one, its rows equal the model " +
			"(for a crash image: the model at the last statement that had returned, or with the statement in progress applied), and all table oids and first-page ids are pairwise distinct. " +
			"Non-trivial = a table is created after a restart while an older table holds rows; distinct by (case, restart number)",
		Assumptions: []string{"crash model as C01", "DDL is not transactional in this engine: crash points lie after the CREATE TABLE call returned"},
		NumCases: func(env *core.Env) int {
			if env.Thorough() {
				return 2400
			}
			return 256
		},
		RunCase:     func(env *core.Env, idx int) *core.CaseResult { return sessCase(env, idx, "C10") },
		Witness:     runSQLWitness,
		CaseTimeout: 40 * time.Second,
	})
}

type sessTable struct {
	nextID                int32 // ids are per table (1, 2, ...), so that joins on id match across tables
	rebuiltByCrashRestart bool  // an index of this table was rebuilt by a crash-type restart
	t                     *rm.Table
	decl                  string // declared name (may differ in case)
	via                   string
	idx                   []string
}

type sess struct {
	openDeleted map[string]*int32 // table -> id of the row a transaction left open at Shutdown() had deleted
	longStrings bool // value() returns long strings for VARCHAR columns (rows that fit into few pages' free space)
	wideCatalog bool
	env         *core.Env
	r           *rand.Rand
	res         *core.CaseResult
	prop        string
	path        string
	memKB       int
	db          *sqlx.DB
	rc          *rec.Recorder
	base        *rec.Image // image at the start of the current recorder
	tabs        []*sessTable
	nextID      int32
	// snapshots for crash images: event index (in the current recorder) after which the model has this content
	snaps  []sessSnap
	dead   bool
	idx    int
	log    []string
	tags   []string
	sticky []string // tags that stay for the rest of the session (trigger regions of listed findings)
}

func (s *sess) addSticky(t string) {
	for _, x := range s.sticky {
		if x == t {
			return
		}
	}
	s.sticky = append(s.sticky, t)
	// (a child process that dies cannot report its tags: the parent reads them from the child's log, see core.SetCrashTagLogHook)
	fmt.Fprintf(os.Stderr, "STICKY-TAGS idx=%d %s\n", s.idx, strings.Join(s.sticky, " "))
}

// noteRestart derives the input-side trigger tags of the listed index findings from the restart about to happen.
func (s *sess) noteRestart(kind string) {
	crash := kind != "clean"
	for _, t := range s.tabs {
		for _, k := range t.idx {
			if k == "hash" && crash {
				s.addSticky("hash-index-crash-restart")
			}
			if k == "btree" && !crash && t.rebuiltByCrashRestart {
				s.addSticky("btree-clean-restart-after-crash-restart")
			}
		}
		if crash {
			t.rebuiltByCrashRestart = true
		}
	}
}

type sessSnap struct {
	pos   int
	rows  map[string][]rm.Row
	after string
}

func (s *sess) snapshot(after string) {
	m := map[string][]rm.Row{}
	for _, t := range s.tabs {
		m[t.t.Name] = append([]rm.Row(nil), t.t.Rows...)
	}
	pos := 0
	if s.rc != nil {
		pos = s.rc.Len()
	}
	s.snaps = append(s.snaps, sessSnap{pos: pos, rows: m, after: after})
}

func (s *sess) open(record bool) bool {
	var get func() *rec.Recorder
	if record {
		get = rec.Install()
	}
	db, failure, hung := crashlab.OpenWithTimeout(s.path, s.memKB)
	s.db = db
	if record {
		rec.Uninstall()
		s.rc = get()
	}
	if hung {
		s.dead = true
		s.res.RestartChild = true
		s.res.Violate("restart-hang", s.tags, s.desc("reopen"), "opening the database: %s", failure)
		return false
	}
	if failure != "" {
		s.dead = true
		s.res.Violate("restart-panic", s.tags, s.desc("reopen"), "opening the database: %s", failure)
		return false
	}
	s.snaps = nil
	s.snapshot("open")
	return true
}

func (s *sess) desc(what string) map[string]any {
	var tl []string
	for _, t := range s.tabs {
		var cols []string
		for i, c := range t.t.Cols {
			cols = append(cols, c.Name+" "+c.K.String()+"/"+t.idx[i])
		}
		tl = append(tl, fmt.Sprintf("%s(%s) via %s, %d rows", t.decl, strings.Join(cols, ", "), t.via, len(t.t.Rows)))
	}
	return map[string]any{"seed": s.env.Seed, "idx": s.idx, "memKB": s.memKB, "tables": tl, "at": what, "session_log": tailStr(s.log, sessLogLen())}
}

func (s *sess) createTable() bool {
	r := s.r
	n := len(s.tabs)
	name := fmt.Sprintf("tb%d", n)
	decl := name
	if r.Intn(3) == 0 {
		decl = strings.ToUpper(name[:1]) + name[1:]
	}
	ncol := 1 + r.Intn(5)
	if s.wideCatalog {
		ncol = 6 + r.Intn(4)
	}
	cols := []rm.Col{{Name: "id", K: rm.KInt}}
	for i := 0; i < ncol; i++ {
		cn := fmt.Sprintf("c%d", i)
		if s.wideCatalog {
			cn += strings.Repeat("x", []int{0, 0, 5, 12, 28, 45, 60}[r.Intn(7)]) // catalog rows of very different lengths
		}
		cols = append(cols, rm.Col{Name: cn, K: rm.Kind(r.Intn(3))})
	}
	st := &sessTable{t: &rm.Table{Name: name, Cols: cols}, decl: decl, via: "sql"}
	if r.Intn(3) == 0 || s.wideCatalog {
		st.via = "api"
	}
	for i, c := range cols {
		k := "skiplist"
		if st.via == "api" {
			k = []string{"", "skiplist", "btree", "hash"}[r.Intn(4)]
			if s.wideCatalog && i > 0 && r.Intn(4) != 0 {
				k = "" // many tables x many columns: keep the number of permanently pinned index pages small
			}
			if i == 0 {
				k = []string{"skiplist", "uniq", "btree"}[r.Intn(3)]
			}
			if c.K != rm.KInt && k == "hash" {
				k = "skiplist"
			}
		}
		st.idx = append(st.idx, k)
	}
	msg, panicked := guarded(func() {
		if st.via == "sql" {
			if err := s.db.CreateTableSQL(decl, cols); err != nil {
				panic("CREATE TABLE failed: " + err.Error())
			}
		} else {
			s.db.CreateTableAPI(decl, cols, st.idx)
		}
	})
	s.log = append(s.log, fmt.Sprintf("CREATE TABLE %s (%d columns, via %s, indexes %v)", decl, len(cols), st.via, st.idx))
	if panicked {
		s.dead = true
		s.res.Violate("ddl-failed", s.tags, s.desc("create table"), "CREATE TABLE %s failed: %s", decl, msg)
		return false
	}
	s.tabs = append(s.tabs, st)
	s.res.Add("tables_created", 1)
	s.snapshot("CREATE TABLE " + decl)
	return true
}

// firstStrCol: the first VARCHAR column without a B-tree index (-1: none). Only this one is made long, so that the row stays narrower than a page.
func firstStrCol(t *sessTable) int {
	for c := range t.t.Cols {
		if t.t.Cols[c].K == rm.KStr && t.idx[c] != "btree" {
			return c
		}
	}
	return -1
}

func (s *sess) value(t *sessTable, col int) rm.Cell {
	if s.longStrings && t.t.Cols[col].K == rm.KStr && t.idx[col] != "btree" && col == firstStrCol(t) {
		// rows of 0.3-0.8 KB (2-3.4 KB where the column has no index): a page that is not nearly empty has no room for them
		n := 300 + s.r.Intn(500)
		if t.idx[col] == "" {
			n = 2000 + s.r.Intn(1400)
		}
		return rm.Str(fmt.Sprintf("L%d.", s.r.Intn(1000000)) + strings.Repeat(string(rune('a'+s.r.Intn(26))), n))
	}
	for {
		v := gen.Value(s.r, t.t.Cols[col].K, false, false)
		if t.idx[col] == "btree" && (len(v.S) > 20 || gen.BtreeExtremeInt(v)) {
			continue
		}
		if gen.LitAccepted(v) {
			return v
		}
	}
}

// dml runs n generated statements; only = "" (mixed) | "insert" | "update" | "delete" restricts the statement kind of
// this session (a session that changes a table through one statement kind only exercises what that kind alone marks
// as changed for the next shutdown).
func (s *sess) dml(n int, only string) {
	r := s.r
	for i := 0; i < n && !s.dead && len(s.tabs) > 0; i++ {
		t := s.tabs[r.Intn(len(s.tabs))]
		var sql string
		after := t.t.Clone()
		hasHash := false
		for _, k := range t.idx {
			if k == "hash" {
				hasHash = true
			}
		}
		c := r.Intn(10)
		switch only {
		case "insert":
			c = 0
		case "update":
			c = 5
			if hasHash || len(t.t.Cols) <= 1 || len(t.t.Rows) == 0 {
				continue
			}
		case "delete":
			c = 9
			if len(t.t.Rows) == 0 {
				continue
			}
		}
		switch {
		case c < 5 || len(t.t.Rows) == 0:
			k := 1 + r.Intn(4)
			var rows []rm.Row
			for j := 0; j < k; j++ {
				t.nextID++
				row := rm.Row{rm.Int(t.nextID)}
				for ci := 1; ci < len(t.t.Cols); ci++ {
					row = append(row, s.value(t, ci))
				}
				rows = append(rows, row)
			}
			sql, _ = sqlx.InsertSQL(t.t.Name, t.t.Cols, rows)
			after.Rows = append(after.Rows, rows...)
		case c < 8 && !hasHash && len(t.t.Cols) > 1:
			row := t.t.Rows[r.Intn(len(t.t.Rows))]
			ci := 1 + r.Intn(len(t.t.Cols)-1)
			v := s.value(t, ci)
			lit, _ := v.SQLLit()
			op := []string{"=", "<=", ">="}[r.Intn(3)]
			var p *rm.Pred
			switch op {
			case "=":
				p = rm.Leaf("id", rm.Eq, row[0])
			case "<=":
				p = rm.Leaf("id", rm.Le, row[0])
			default:
				p = rm.Leaf("id", rm.Ge, row[0])
			}
			sql = fmt.Sprintf("UPDATE %s SET %s = %s WHERE id %s %d;", t.t.Name, t.t.Cols[ci].Name, lit, op, row[0].I)
			rm.Update(after, p, map[string]rm.Cell{t.t.Cols[ci].Name: v})
		default:
			row := t.t.Rows[r.Intn(len(t.t.Rows))]
			sql = fmt.Sprintf("DELETE FROM %s WHERE id = %d;", t.t.Name, row[0].I)
			rm.Delete(after, rm.Leaf("id", rm.Eq, row[0]))
		}
		var rr sqlx.Result
		msg, panicked := guarded(func() { rr = s.db.Auto(sql) })
		s.log = append(s.log, clipStr(sql, sessLogLen()*6))
		s.res.Add("dml_statements", 1)
		if panicked || rr.Err != nil || rr.Aborted {
			s.dead = true
			s.res.Violate("dml-failed", s.tags, s.desc(clipStr(sql, 200)), "%s failed: panic=%q err=%v aborted=%v", clipStr(sql, 200), msg, rr.Err, rr.Aborted)
			return
		}
		t.t.Rows = after.Rows
		s.snapshot(clipStr(sql, 100))
	}
}

// bulk inserts n rows into t with multi-row INSERT statements.
func (s *sess) bulk(t *sessTable, n int) {
	for i := 0; i < n && !s.dead; i += 25 {
		var rows []rm.Row
		for j := i; j < i+25 && j < n; j++ {
			t.nextID++
			row := rm.Row{rm.Int(t.nextID)}
			for ci := 1; ci < len(t.t.Cols); ci++ {
				row = append(row, s.value(t, ci))
			}
			rows = append(rows, row)
		}
		sql, _ := sqlx.InsertSQL(t.t.Name, t.t.Cols, rows)
		var rr sqlx.Result
		msg, panicked := guarded(func() { rr = s.db.Auto(sql) })
		if panicked || rr.Err != nil || rr.Aborted {
			s.dead = true
			s.res.Violate("dml-failed", s.tags, s.desc("bulk insert"), "bulk INSERT into %s failed: panic=%q err=%v aborted=%v", t.t.Name, msg, rr.Err, rr.Aborted)
			return
		}
		t.t.Rows = append(t.t.Rows, rows...)
		s.res.Add("dml_statements", 1)
	}
	s.log = append(s.log, fmt.Sprintf("bulk insert of %d rows into %s", n, t.t.Name))
	s.snapshot("bulk insert")
}

// battery runs the query battery; returns query -> sorted canonical rows, plus whether an index-path answer was non-empty.
func (s *sess) battery() (map[string][]string, bool) {
	out := map[string][]string{}
	idxNonEmpty := false
	run := func(key, sql string, exp []rm.Row, t *sessTable) {
		if s.dead {
			return
		}
		var r sqlx.Result
		msg, panicked := guarded(func() {
			txn := s.db.Begin()
			r = s.db.Exec(txn, sql)
			if r.Aborted {
				s.db.Abort(txn)
			} else {
				s.db.Commit(txn)
			}
		})
		s.res.Add("battery_queries", 1)
		if panicked || r.Err != nil || r.Aborted {
			s.res.Violate("query-failed", s.tags, s.desc(sql), "%s failed: panic=%q err=%v aborted=%v", sql, msg, r.Err, r.Aborted)
			openTxn := false
			for _, t := range s.tags {
				openTxn = openTxn || t == "open-transaction-at-shutdown"
			}
			if openTxn && !panicked && r.Aborted {
				// (listed finding: scans that reach the orphaned delete mark are aborted) the other access paths are still judged
				return
			}
			s.dead = true
			return
		}
		var rows []string
		for _, row := range r.Rows {
			rows = append(rows, row.Canon())
		}
		sort.Strings(rows)
		out[key] = rows
		if strings.Contains(r.Shape, "Index") && len(rows) > 0 {
			idxNonEmpty = true
		}
		if exp != nil {
			if d := rm.DiffMultiset(r.Rows, exp, nil); d != "" {
				kind := "battery-vs-model"
				if s.openDeleted != nil && t != nil && s.openDeleted[t.t.Name] != nil {
					// the listed finding C09-open-transaction-at-shutdown is exactly this: the one row the open transaction had deleted
					// is missing (its delete mark persisted), nothing else differs
					var without []rm.Row
					for _, row := range exp {
						if row[0].I != *s.openDeleted[t.t.Name] {
							without = append(without, row)
						}
					}
					if len(without) == len(exp)-1 && rm.DiffMultiset(r.Rows, without, nil) == "" {
						kind = "uncommitted-delete-persisted"
					}
				}
				s.res.Violate(kind, s.tags, s.desc(sql), "%s [plan %s]: %s", sql, r.Shape, d)
			}
		}
	}
	for _, t := range s.tabs {
		var cols []string
		for _, c := range t.t.Cols {
			cols = append(cols, c.Name)
		}
		all, _ := rm.Select(t.t, nil, cols)
		run("scan:"+t.t.Name, "SELECT * FROM "+t.decl+" WHERE id >= 0 OR id < 0;", all, t)
		for ci, c := range t.t.Cols {
			if t.idx[ci] == "hash" {
				continue
			}
			for n := 0; n < 2; n++ {
				var lit rm.Cell
				if len(t.t.Rows) > 0 {
					lit = t.t.Rows[(n*7+ci)%len(t.t.Rows)][ci]
				} else {
					lit = s.value(t, ci)
				}
				if !gen.LitAccepted(lit) {
					continue
				}
				for _, op := range []rm.CmpOp{rm.Eq, rm.Le, rm.Gt} {
					p := rm.Leaf(c.Name, op, lit)
					must, _ := rm.Select(t.t, p, cols)
					sql := "SELECT * FROM " + t.t.Name + " WHERE " + p.SQL("") + ";"
					run(fmt.Sprintf("%s:%s:%d:%d", t.t.Name, c.Name, n, op), sql, must, t)
					run(fmt.Sprintf("%s:%s:%d:%d:scan", t.t.Name, c.Name, n, op), "SELECT * FROM "+t.t.Name+" WHERE ("+p.SQL("")+") OR id < 0;", must, t)
				}
			}
		}
	}
	for i := 0; i+1 < len(s.tabs) && i < 2; i++ {
		a, b := s.tabs[i], s.tabs[i+1]
		sql := fmt.Sprintf("SELECT %s.id, %s.id FROM %s JOIN %s ON %s.id = %s.id;", a.t.Name, b.t.Name, a.t.Name, b.t.Name, a.t.Name, b.t.Name)
		var exp []rm.Row
		for _, ra := range a.t.Rows {
			for _, rb := range b.t.Rows {
				if ra[0].I == rb[0].I {
					exp = append(exp, rm.Row{ra[0], rb[0]})
				}
			}
		}
		if exp == nil {
			exp = []rm.Row{}
		}
		run("join:"+a.t.Name+":"+b.t.Name, sql, exp, a)
		// the same join with conditions on both sides (the optimizer then cannot use an index join: hash join with
		// materialised build rows) and a wide select list (large temp tuples: several temp pages)
		var sel []string
		for _, c := range a.t.Cols {
			sel = append(sel, a.t.Name+"."+c.Name)
		}
		for _, c := range b.t.Cols {
			sel = append(sel, b.t.Name+"."+c.Name)
		}
		sql2 := fmt.Sprintf("SELECT %s FROM %s JOIN %s ON %s.id = %s.id WHERE %s.id >= 0 AND %s.id >= 0;", strings.Join(sel, ", "), a.t.Name, b.t.Name, a.t.Name, b.t.Name, a.t.Name, b.t.Name)
		var exp2 []rm.Row
		for _, ra := range a.t.Rows {
			for _, rb := range b.t.Rows {
				if ra[0].I == rb[0].I {
					exp2 = append(exp2, append(ra.Clone(), rb...))
				}
			}
		}
		if exp2 == nil {
			exp2 = []rm.Row{}
		}
		run("widejoin:"+a.t.Name+":"+b.t.Name, sql2, exp2, a)
	}
	return out, idxNonEmpty
}

// identity checks (C10): names, schemas, rows, distinct identifiers.
func (s *sess) identity(where string) {
	if s.dead {
		return
	}
	oids := map[uint32]string{}
	pages := map[int32]string{}
	for _, t := range s.tabs {
		var fail string
		msg, panicked := guarded(func() {
			tm := s.db.Cat.GetTableByName(t.decl)
			if tm == nil {
				fail = "not reachable by name"
				return
			}
			sc := tm.Schema()
			if int(sc.GetColumnCount()) != len(t.t.Cols) {
				fail = fmt.Sprintf("has %d columns, declared %d", sc.GetColumnCount(), len(t.t.Cols))
				return
			}
			for i, c := range t.t.Cols {
				col := sc.GetColumn(uint32(i))
				wantT := map[rm.Kind]types.TypeID{rm.KInt: types.Integer, rm.KFloat: types.Float, rm.KStr: types.Varchar}[c.K]
				if col.GetColumnName() != t.t.Name+"."+c.Name || col.GetType() != wantT {
					fail = fmt.Sprintf("column %d is %s/%v, declared %s.%s/%v", i, col.GetColumnName(), col.GetType(), t.t.Name, c.Name, wantT)
					return
				}
			}
			if prev, dup := oids[tm.OID()]; dup {
				fail = fmt.Sprintf("shares table oid %d with %s", tm.OID(), prev)
				return
			}
			oids[tm.OID()] = t.decl
			fp := int32(tm.Table().GetFirstPageID())
			if prev, dup := pages[fp]; dup {
				fail = fmt.Sprintf("shares first page %d with %s", fp, prev)
				return
			}
			pages[fp] = t.decl
			r := s.db.Auto("SELECT * FROM " + t.decl + " WHERE id >= 0 OR id < 0;")
			if r.Err != nil || r.Aborted {
				fail = fmt.Sprintf("SELECT * failed: err=%v aborted=%v", r.Err, r.Aborted)
				return
			}
			if d := rm.DiffMultiset(r.Rows, t.t.Rows, nil); d != "" {
				fail = "rows differ from the model: " + d
			}
		})
		s.res.Add("identity_checks", 1)
		if panicked {
			s.dead = true
			s.res.Violate("table-access-panic", s.tags, s.desc(where), "%s: table %s: %s", where, t.decl, msg)
			return
		}
		if fail != "" {
			kind := "table-identity"
			if strings.HasPrefix(fail, "rows differ") {
				kind = "table-rows"
			}
			s.res.Violate(kind, s.tags, s.desc(where), "%s: table %s %s", where, t.decl, fail)
			s.dead = true
			return
		}
	}
}

func (s *sess) close(kind string) bool {
	msg, panicked := guarded(func() {
		if kind == "clean" {
			s.db.S.Shutdown()
		} else {
			s.db.S.ShutdownForTescase()
		}
	})
	if panicked {
		s.dead = true
		s.res.Violate("shutdown-panic", s.tags, s.desc(kind+" shutdown"), "%s shutdown panicked: %s", kind, msg)
		return false
	}
	return true
}

func init() {
	for _, id := range []string{"C09", "C10"} {
		core.SetCrashTagLogHook(id, func(env *core.Env, idx int, logPath string) []string { return core.StickyTagsFromLog(logPath, idx) })
	}
}

func sessCase(env *core.Env, idx int, prop string) *core.CaseResult {
	r := env.Rand(idx)
	res := core.NewResult()
	s := &sess{env: env, r: r, res: res, prop: prop, idx: idx, nextID: 1}
	s.path = fmt.Sprintf("%s/sess_%s_%d", env.TmpDir, prop, idx)
	sqlx.RemoveFiles(s.path)
	s.memKB = []int{512, 1024, 2048, 4096}[r.Intn(4)]
	if prop == "C10" && idx%4 == 3 && s.memKB < 2048 {
		s.memKB = 2048 // wide-catalog sessions (below): many tables and columns
	}
	s.base = &rec.Image{}
	defer func() {
		if s.db != nil && !s.dead {
			guarded(func() { s.db.S.ShutdownForTescase() })
		}
		sqlx.RemoveFiles(s.path)
	}()
	if !s.open(prop == "C10") {
		return res
	}
	if prop == "C09" {
		nt := 1 + r.Intn(3)
		for i := 0; i < nt && !s.dead; i++ {
			s.createTable()
		}
		if r.Intn(3) == 0 {
			// bulk fill: several hundred rows per table, so that heaps span many pages and hash-join build sides need several temp pages
			for _, t := range s.tabs {
				s.bulk(t, 250+r.Intn(350))
			}
		}
		s.dml(10+r.Intn(60), "")
		cycles := 2 + r.Intn(3)
		for c := 0; c < cycles && !s.dead; c++ {
			s.tags = []string{fmt.Sprintf("cycle-%d", c)}
			before, idxNonEmpty := s.battery()
			if s.dead {
				break
			}
			// the LAST clean shutdown of one session in four happens while a transaction (begun through the transaction API) is still open
			// after it has deleted a row: it never commits, so the reopened database has to show the rows as they were before it
			// (listed finding C09-open-transaction-at-shutdown: the delete mark stays for ever; only the last cycle, so that nothing else is masked)
			if c == cycles-1 && r.Intn(4) == 0 && len(s.tabs) > 0 {
				t := s.tabs[r.Intn(len(s.tabs))]
				if len(t.t.Rows) > 2 {
					row := t.t.Rows[r.Intn(len(t.t.Rows))]
					sql := fmt.Sprintf("DELETE FROM %s WHERE id = %d;", t.t.Name, row[0].I)
					open := s.db.Begin()
					var rr sqlx.Result
					guarded(func() { rr = s.db.Exec(open, sql) })
					if rr.Err == nil && !rr.Aborted {
						if s.openDeleted == nil {
							s.openDeleted = map[string]*int32{}
						}
						id := row[0].I
						s.openDeleted[t.t.Name] = &id
						s.addSticky("open-transaction-at-shutdown")
						s.tags = append(s.tags, "open-transaction-at-shutdown")
						s.log = append(s.log, "left open at Shutdown(): "+sql)
						res.Add("clean_shutdowns_with_an_open_transaction", 1)
					}
				}
			}
			if !s.close("clean") {
				break
			}
			s.log = append(s.log, "Shutdown(); reopen")
			if !s.open(false) {
				break
			}
			res.Add("clean_restarts", 1)
			after, _ := s.battery()
			if s.dead {
				break
			}
			// what the indexes answer is observable too: every index of every table against its heap (point look-ups of all
			// stored keys, full range scans), also for index kinds the SQL layer does not plan with (hash)
			for _, t := range s.tabs {
				var problems []string
				if msg, panicked := guarded(func() { problems, _, _ = s.db.IndexAudit(t.t.Name, t.idx, nil, nil) }); panicked {
					problems = []string{"index audit panicked: " + msg}
				}
				res.Add("index_audits_after_clean_restart", 1)
				if len(problems) > 0 {
					res.Violate("index-changed-by-restart", s.tags, s.desc("index audit after reopen"), "after a clean shutdown and reopen the indexes of %s disagree with the table: %s", t.t.Name, strings.Join(clipList(problems, 4), "; "))
					break
				}
			}
			var diffs []string
			for k, v := range before {
				if strings.Join(v, "\n") != strings.Join(after[k], "\n") {
					diffs = append(diffs, fmt.Sprintf("%s: %d rows before, %d rows after", k, len(v), len(after[k])))
				}
			}
			sort.Strings(diffs)
			if len(diffs) > 0 {
				res.Violate("answer-changed-by-restart", s.tags, s.desc("after reopen"), "answers differ across a clean shutdown and reopen: %s", strings.Join(clipList(diffs, 6), "; "))
			}
			big := false
			for _, t := range s.tabs {
				if len(t.t.Rows) >= 40 {
					big = true
				}
			}
			if big && idxNonEmpty {
				res.Nontrivial = true
				res.Add("nontrivial_cycles", 1)
			}
			// half of the reopened databases first get a few WIDE rows: the heap (whose insert position starts at its first page again)
			// is walked to its tail and grows by a page at once
			if r.Intn(2) == 0 && !s.dead {
				t := s.tabs[r.Intn(len(s.tabs))]
				s.longStrings = true
				s.bulk(t, 1+r.Intn(4))
				s.longStrings = false
				res.Add("sessions_starting_with_wide_rows_after_the_reopen", 1)
			}
			// the session between two clean restarts: mixed statements, one statement kind only, or read-only
			switch kind := []string{"", "", "update", "insert", "delete", "none", "bulk"}[r.Intn(7)]; kind {
			case "none":
				res.Add("sessions_read_only", 1)
			case "bulk":
				// a reopened heap grows by many pages: the first inserts fill the holes earlier deletes left in the front pages, later
				// ones walk from there to the full tail and append
				t := s.tabs[r.Intn(len(s.tabs))]
				if r.Intn(2) == 0 {
					s.longStrings = true // wide rows: the tail page rarely has room for the first of them
					s.bulk(t, 20+r.Intn(40))
					s.longStrings = false
				} else {
					s.bulk(t, 150+r.Intn(250))
				}
				res.Add("sessions_bulk_insert_into_a_reopened_table", 1)
			default:
				s.dml(5+r.Intn(25), kind)
				res.Add("sessions_"+map[string]string{"": "mixed", "update": "update_only", "insert": "insert_only", "delete": "delete_only"}[kind], 1)
			}
			if r.Intn(3) == 0 && len(s.tabs) < 4 && !s.dead {
				s.createTable()
			}
		}
		if !s.dead {
			s.battery()
		}
	} else {
		nTables := 2 + r.Intn(5)
		if idx%4 == 3 {
			// many tables with many columns and names of mixed lengths: the column catalog spans several pages and its
			// rows are placed first-fit after restarts
			s.wideCatalog = true
			nTables = 9 + r.Intn(6)
			res.Add("sessions_with_a_multi_page_column_catalog", 1)
		}
		restarts := 0
		for len(s.tabs) < nTables && !s.dead {
			olderHasRows := false
			for _, t := range s.tabs {
				if len(t.t.Rows) > 0 {
					olderHasRows = true
				}
			}
			if !s.createTable() {
				break
			}
			if restarts > 0 && olderHasRows {
				res.Nontrivial = true
				res.Add("tables_created_after_restart_with_older_data", 1)
			}
			s.identity("after CREATE TABLE " + s.tabs[len(s.tabs)-1].decl)
			// wide-catalog sessions: half of the tables are followed at once by a crash (image at a prefix right after CREATE TABLE
			// returned, nothing else written since): the DDL's own catalog rows, pages and log records must be enough
			crashAfterDDL := s.wideCatalog && len(s.tabs) > 5 && r.Intn(2) == 0 && s.base != nil
			if !crashAfterDDL {
				s.dml(3+r.Intn(15), "")
			}
			if s.dead {
				break
			}
			if crashAfterDDL || r.Intn(2) == 0 {
				kind := []string{"clean", "crash-like-close", "crash-image"}[r.Intn(3)]
				if crashAfterDDL {
					kind = "crash-image"
					res.Add("crashes_right_after_create_table", 1)
				}
				s.noteRestart(kind)
				s.tags = append([]string{"restart-" + kind}, s.sticky...)
				restarts++
				res.Add("restarts_"+kind, 1)
				switch kind {
				case "clean", "crash-like-close":
					k := "clean"
					if kind != "clean" {
						k = "testcase"
					}
					// image bookkeeping for later crash images: after a close the files are what they are; start a fresh base from them
					if !s.close(k) {
						break
					}
					s.log = append(s.log, "restart: "+kind)
					s.base = readImage(s.path)
					if !s.open(true) {
						break
					}
				default:
					// crash image at a random prefix after the last DDL returned
					if s.base == nil {
						// the files were produced by a previous close: cannot rebuild a prefix image without the base; use a crash-like close instead
						if !s.close("testcase") {
							break
						}
						s.base = readImage(s.path)
						if !s.open(true) {
							break
						}
						s.log = append(s.log, "restart: crash-like-close (no base image)")
						break
					}
					events := s.rc.Events
					lastDDL := 0
					for _, sn := range s.snaps {
						if strings.HasPrefix(sn.after, "CREATE TABLE") || sn.after == "open" {
							lastDDL = sn.pos
						}
					}
					k := lastDDL + r.Intn(len(events)-lastDDL+1)
					im := s.base.Clone()
					for i := 0; i < k; i++ {
						im.Apply(&events[i])
					}
					s.close("testcase")
					// expected model: last snapshot with pos <= k; the next statement may be in progress
					cur, next := -1, -1
					for i, sn := range s.snaps {
						if sn.pos <= k {
							cur = i
						}
					}
					if cur+1 < len(s.snaps) {
						next = cur + 1
					}
					im.WriteFiles(s.path)
					s.log = append(s.log, fmt.Sprintf("restart: crash image after I/O event %d of %d (model as after %q)", k, len(events), s.snaps[cur].after))
					snapCur, snapNext := s.snaps[cur], sessSnap{}
					if next >= 0 {
						snapNext = s.snaps[next]
					}
					s.base = im
					if !s.open(true) {
						break
					}
					// choose the candidate that matches
					matched := false
					for ci, cand := range []sessSnap{snapCur, snapNext} {
						if cand.rows == nil {
							continue
						}
						ok := true
						for _, t := range s.tabs {
							var rr sqlx.Result
							if _, p := guarded(func() { rr = s.db.ScanAllAuto(t.t.Name) }); p || rr.Err != nil || rr.Aborted {
								ok = false
								break
							}
							if rm.DiffMultiset(rr.Rows, cand.rows[t.t.Name], nil) != "" {
								ok = false
								break
							}
						}
						if ok {
							for _, t := range s.tabs {
								t.t.Rows = append([]rm.Row(nil), cand.rows[t.t.Name]...)
							}
							matched = true
							if ci == 1 {
								res.Add("crash_images_with_statement_in_progress_applied", 1)
							}
							break
						}
					}
					if !matched {
						for _, t := range s.tabs {
							t.t.Rows = append([]rm.Row(nil), snapCur.rows[t.t.Name]...)
						}
					}
					// ids used by statements that were rolled away may be reused: harmless, ids only need to be unique among live rows
				}
				if s.dead {
					break
				}
				if r.Intn(3) == 0 {
					// an idle session: the database is started, only read, and left like a crash once more
					s.identity("in an idle session after restart (" + strings.TrimPrefix(s.tags[0], "restart-") + ")")
					s.noteRestart("crash-like-close")
					s.tags = append([]string{"restart-crash-like-close"}, s.sticky...)
					if s.dead || !s.close("testcase") {
						break
					}
					s.log = append(s.log, "idle session; restart: crash-like-close")
					s.base = readImage(s.path)
					if !s.open(true) {
						break
					}
					restarts++
					res.Add("idle_sessions_between_restarts", 1)
				}
				s.identity("after restart (" + strings.TrimPrefix(s.tags[0], "restart-") + ")")
				s.dml(2+r.Intn(8), "")
			}
		}
		if !s.dead {
			s.identity("at the end")
		}
	}
	res.Key = fmt.Sprintf("%s-%d", prop, idx)
	if idx < 2 {
		res.Sample = s.desc("sample")
	}
	return res
}

func readImage(path string) *rec.Image {
	dbb, _ := os.ReadFile(path + ".db")
	lgb, _ := os.ReadFile(path + ".log")
	return &rec.Image{DB: dbb, Log: lgb}
}

func sessLogLen() int {
	if os.Getenv("VERIF_FULLLOG") != "" {
		return 1 << 20
	}
	return 25
}
