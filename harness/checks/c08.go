package checks

// C08 - write-ahead discipline at the storage boundary: a pure trace monitor over recorded executions.

import (
	"bytes"
	"fmt"
	"math/rand"
	"strings"
	"sync"
	"sync/atomic"
	"time"

	"verifharness/internal/core"
	"verifharness/internal/crashlab"
	"verifharness/internal/rec"
	rm "verifharness/internal/refmodel"
	"verifharness/internal/sqlx"
)

func init() {
	core.Register(&core.Check{
		ID:    "C08",
		Level: "exploration",
		Rule: "case = one recorded execution: (a) a single-goroutine crash-laboratory history (explicit multi-statement transactions, aborts, forced checkpoints, evictions in small pools) or (b) a concurrent run of 6-12 client goroutines issuing auto-commit DML and point reads through ExecuteSQL in small pools, with forced checkpoints and statistics scans from extra goroutines, or (c) 3-6 client goroutines running multi-statement transactions with aborts plus a concurrent checkpointer. In (b) and (c) the recorder does not serialise the engine's calls: a page write is stamped when it is CALLED, a log write when it has RETURNED, and log writes are optionally lengthened (0 / 0.2 / 1 ms) to model a slow fsync. " +
			"Three offline rules over the I/O trace: PAGE - for every WritePage(p) whose LSN field L exceeds every LSN in the log bytes written before it, the record with LSN L (found anywhere in the run's log) must not be a tuple/new-page record targeting user heap page p; " +
			"COMMIT - at every commit-return marker of a writing transaction the log bytes written so far contain its COMMIT record; SHAPE - after every WriteLog the log so far parses into complete records with per-transaction strictly increasing LSNs and a consistent prevLSN chain. " +
			"Non-trivial event = a user-heap page write whose LSN became durable only through the immediately preceding log write; distinct by (case, page, LSN)",
		Assumptions: []string{"a record counts as durable once the WriteLog call that carries it has returned (the property's storage model)", "commit markers are appended after the call returned, so the commit rule can miss a tiny window under concurrency but cannot raise a false alarm"},
		NumCases: func(env *core.Env) int {
			if env.Thorough() {
				return 640
			}
			return 64
		},
		RunCase:  c08Run,
		Children: func(env *core.Env) int { return 8 },
	})
}

type c08Commit struct {
	pos   int    // event index of the COMMIT-RET marker
	txn   int32  // engine transaction id if known (-1: identify by token)
	token string // unique token written by the transaction
	desc  string
}

func c08Run(env *core.Env, idx int) *core.CaseResult {
	r := env.Rand(idx)
	res := core.NewResult()
	var events []rec.Event
	var commits []c08Commit
	var tags []string
	var desc map[string]any
	if idx%16 == 9 {
		events, desc = c08Boundary(env, r, idx, res)
		tags = []string{"single-goroutine", "log-buffer-boundary"}
		if events == nil {
			return res
		}
	} else if idx%4 != 3 {
		bias := "commit"
		if idx%2 == 1 {
			bias = "loser"
		}
		p := crashParams(r, env, bias)
		p.Checkpoint = true
		multi := idx%8 == 5
		var h *crashlab.History
		var fatal string
		if multi {
			// (c) multi-statement transactions with aborts from several client goroutines, I/O calls not serialised by the recorder
			p.Clients = 3 + r.Intn(4)
			p.MemKB = []int{128, 192, 256}[r.Intn(3)]
			if p.Clients > 4 && p.MemKB < 192 {
				p.MemKB = 192
			}
			p.ConcurrentIO = true
			p.LogDelay = []time.Duration{0, 200 * time.Microsecond, 1 * time.Millisecond}[r.Intn(3)]
			p.ThinkTime = 200 * time.Microsecond
			p.Steps *= 2
			h, fatal = crashlab.RunConcurrent(r, fmt.Sprintf("%s/c08_%d", env.TmpDir, idx), p)
		} else {
			if idx%8 == 1 || idx%8 == 2 {
				// two fully indexed tables in a 32-frame pool with hash joins between the transactions: page ids of the joins' temp pages wait
				// for reuse while later transactions allocate pages (NewPage's reuse path evicting dirty pages)
				p.Tables = []crashlab.TableDef{{Name: "h0", Via: "sql", Idx: []string{"skiplist", "skiplist", "skiplist"}}, {Name: "h1", Via: "sql", Idx: []string{"skiplist", "skiplist", "skiplist"}}}
				p.MemKB = 128
				p.Joins = true
				p.BulkUpdates = true // one statement dirties every heap page and splits / empties index nodes (NewPage) before any flush
				p.MaxPayload = 800
				p.RowSizes = []int{300, 800}
				p.Steps = 200 + r.Intn(100)
				p.MaxOpen = 1
				res.Add("histories_with_joins_between_transactions", 1)
			}
			if idx%8 == 6 {
				bigTxnParams(r, &p) // single transactions larger than the log buffer (the buffer-full path of AppendLogRecord)
				res.Add("histories_with_a_transaction_larger_than_the_log_buffer", 1)
			}
			h, fatal = crashlab.Run(r, fmt.Sprintf("%s/c08_%d", env.TmpDir, idx), p)
		}
		if fatal != "" {
			res.Inconclusive = "live history panicked: " + clipStr(fatal, 200)
			return res
		}
		events = h.Events
		for k, v := range h.Stats {
			if k == "join_statements" || k == "insert_bursts_next_to_open_transactions" || k == "checkpoints" || k == "stmt_update_indexed_column_of_every_row" || k == "checkpoints_right_after_a_big_transaction" || k == "stmt_conflict_half_way_through_a_scan" {
				res.Add("history_"+k, v)
			}
		}
		for _, t := range h.Txns {
			if t.CommitRet >= 0 && len(t.Ops) > 0 {
				tok := ""
				for _, op := range t.Ops {
					if op.Row != nil && len(op.Row) == 3 && (strings.HasPrefix(op.Row[2].S, fmt.Sprintf("t%ds", t.N)) || strings.HasPrefix(op.Row[2].S, fmt.Sprintf("t%da", t.N)) ||
						(multi && strings.HasPrefix(op.Row[2].S, "c") && strings.Contains(op.Row[2].S, fmt.Sprintf("t%ds", t.N)))) {
						if i := strings.Index(op.Row[2].S, "."); i > 0 {
							tok = op.Row[2].S[:i+1]
						}
					}
				}
				commits = append(commits, c08Commit{pos: t.CommitRet, txn: -1, token: tok, desc: fmt.Sprintf("T%d %v", t.N, clipList(t.Stmts, 2))})
			}
		}
		tags = []string{"single-goroutine"}
		desc = describeHistory(h)
		if multi {
			tags = []string{"concurrent", "multi-statement-clients"}
			res.Add("concurrent_multi_statement_histories", 1)
		} else {
			res.Add("single_goroutine_histories", 1)
		}
	} else {
		events, commits, desc = c08Concurrent(env, r, idx, res)
		tags = []string{"concurrent"}
		res.Add("concurrent_histories", 1)
		if events == nil {
			return res
		}
	}
	c08Rules(res, events, commits, tags, desc, idx)
	res.Key = fmt.Sprintf("c08-%d", idx)
	if idx < 2 {
		res.Sample = map[string]any{"events": len(events), "commit_markers": len(commits), "history": desc}
	}
	return res
}

// c08Rules evaluates the three trace rules.
func c08Rules(res *core.CaseResult, events []rec.Event, commits []c08Commit, tags []string, desc map[string]any, idx int) {
	// the whole log stream of the run (GC resets respected for the shape rule, not for LSN lookup)
	var all []byte
	for i := range events {
		if events[i].Kind == rec.WriteLog {
			all = append(all, events[i].Data...)
		}
	}
	allRecs, _, _ := rec.ParseLog(all)
	byLSN := map[int32]rec.LogRec{}
	heap := map[int32]bool{}
	for _, lr := range allRecs {
		if lr.LSN >= 0 {
			byLSN[lr.LSN] = lr
		}
		switch lr.Type {
		case rec.LInsert, rec.LMarkDelete, rec.LApplyDelete, rec.LRollbackDelete, rec.LUpdate, rec.LNewTablePage:
			if lr.Page > 1 {
				heap[lr.Page] = true
			}
		}
	}
	res.Add("log_records_parsed", int64(len(allRecs)))
	// walk the trace
	var cur []byte // log file content since the last GC
	durableMax := int32(-1)
	prevDurableMax := int32(-1) // before the most recent WriteLog
	lastWasLog := false
	lastLSN := map[int32]int32{}
	seenTxnCommit := map[int32]bool{}
	tokenTxn := map[string][]int32{}
	ci := 0
	for i := range events {
		e := &events[i]
		switch e.Kind {
		case rec.WriteLog:
			res.Add("log_writes", 1)
			cur = append(cur, e.Data...)
			recs, rest, prob := rec.ParseLog(e.Data)
			if rest != 0 {
				// a write may end inside a record only if the whole file still parses (it never does in this engine: writes are whole buffers)
				if _, rest2, prob2 := rec.ParseLog(cur); rest2 != 0 {
					res.Violate("log-shape", tags, map[string]any{"event": i + 1, "history": desc, "idx": idx}, "after WriteLog event %d the log file does not parse into complete records: %s (%d trailing bytes; this write alone: %s)", i+1, prob2, rest2, prob)
				}
			}
			prevDurableMax = durableMax
			for _, lr := range recs {
				if lr.LSN > durableMax {
					durableMax = lr.LSN
				}
				if lr.LSN < 0 {
					continue
				}
				if last, ok := lastLSN[lr.Txn]; ok {
					if lr.LSN <= last {
						res.Violate("log-order", tags, map[string]any{"event": i + 1, "history": desc, "idx": idx}, "transaction %d: record %v follows its record with LSN %d", lr.Txn, lr, last)
					}
					if lr.PrevLSN != last {
						res.Violate("log-chain", tags, map[string]any{"event": i + 1, "history": desc, "idx": idx}, "transaction %d: record %v has prevLSN %d but the transaction's previous record has LSN %d", lr.Txn, lr, lr.PrevLSN, last)
					}
				} else if lr.PrevLSN != -1 {
					res.Violate("log-chain", tags, map[string]any{"event": i + 1, "history": desc, "idx": idx}, "transaction %d: first record %v has prevLSN %d", lr.Txn, lr, lr.PrevLSN)
				}
				lastLSN[lr.Txn] = lr.LSN
				if lr.Type == rec.LCommit {
					seenTxnCommit[lr.Txn] = true
				}
			}
			// token -> transaction ids (for the commit rule)
			for _, c := range commits {
				if c.token == "" {
					continue
				}
				for _, lr := range recs {
					if lr.Type == rec.LInsert || lr.Type == rec.LUpdate {
						if bytes.Contains(e.Data[lr.Off:lr.Off+int(lr.Size)], []byte(c.token)) {
							tokenTxn[c.token] = append(tokenTxn[c.token], lr.Txn)
						}
					}
				}
			}
			lastWasLog = true
			continue
		case rec.GCLog:
			cur = cur[:0]
		case rec.WritePage:
			res.Add("page_writes", 1)
			if len(e.Data) >= 8 && heap[e.Page] {
				res.Add("user_heap_page_writes", 1)
				L := int32(uint32(e.Data[4]) | uint32(e.Data[5])<<8 | uint32(e.Data[6])<<16 | uint32(e.Data[7])<<24)
				lr, known := byLSN[L]
				targets := known && lr.Page == e.Page && lr.Type != rec.LDeallocatePage && lr.Type != rec.LReusePage
				if L > durableMax && targets {
					res.Violate("page-before-log", append([]string{"record-" + fmt.Sprint(lr.Type)}, tags...), map[string]any{"event": i + 1, "page": e.Page, "page_lsn": L, "durable_max_lsn": durableMax, "record": lr.String(), "history": desc, "idx": idx},
						"WritePage(%d) at event %d carries LSN %d (%v) while the greatest LSN on stable storage is %d", e.Page, i+1, L, lr, durableMax)
				}
				if targets && L <= durableMax && L > prevDurableMax && lastWasLog {
					res.Nontrivial = true
					res.Add("page_writes_made_safe_by_the_preceding_log_flush", 1)
				}
			}
		case rec.Marker:
			if e.Mark == "COMMIT-RET" {
				for ci < len(commits) && commits[ci].pos < i {
					ci++
				}
			}
		}
		lastWasLog = false
		// commit rule: all commit markers located at this event index
		for _, c := range commits {
			if c.pos != i {
				continue
			}
			res.Add("commit_returns_checked", 1)
			ok := false
			if c.txn >= 0 {
				ok = seenTxnCommit[c.txn]
			} else if c.token != "" {
				for _, t := range tokenTxn[c.token] {
					if seenTxnCommit[t] {
						ok = true
					}
				}
			} else {
				ok = true // nothing to identify the transaction by (e.g. only deletes): not checked
				res.Add("commit_returns_unidentifiable", 1)
			}
			if !ok {
				res.Violate("commit-before-log", tags, map[string]any{"event": i + 1, "txn": c.desc, "history": desc, "idx": idx}, "commit of %s returned (marker at event %d) but no COMMIT record of a transaction carrying its token %q is in the log bytes written so far", c.desc, i+1, c.token)
			}
		}
	}
}

// c08Concurrent runs auto-commit DML from several goroutines through ExecuteSQL under the recorder.
func c08Concurrent(env *core.Env, r *rand.Rand, idx int, res *core.CaseResult) ([]rec.Event, []c08Commit, map[string]any) {
	memKB := []int{96, 128, 256, 1024}[r.Intn(4)]
	clients := 6 + r.Intn(7)
	if memKB < 128 && clients > 8 {
		clients = 8 // 24 frames: more concurrent statements than that can pin every frame at once (capacity, not correctness)
	}
	ops := 40
	if env.Thorough() {
		ops = 80
	}
	get := rec.Install()
	db := sqlx.Open(fmt.Sprintf("%s/c08c_%d", env.TmpDir, idx), memKB, sqlx.Options{})
	rc := get()
	rec.Uninstall()
	rc.Concurrent = true
	rc.LogDelay = []time.Duration{0, 200 * time.Microsecond, 1 * time.Millisecond}[r.Intn(3)]
	if err := db.CreateTableSQL("cw", crashlab.Cols); err != nil {
		res.Inconclusive = "create table failed"
		return nil, nil, nil
	}
	var mu sync.Mutex
	var commits []c08Commit
	var wg sync.WaitGroup
	var stop atomic.Bool
	var failed atomic.Value
	seeds := make([]int64, clients)
	for i := range seeds {
		seeds[i] = r.Int63()
	}
	for c := 0; c < clients; c++ {
		wg.Add(1)
		go func(c int) {
			defer wg.Done()
			defer func() {
				if p := recover(); p != nil {
					failed.Store(fmt.Sprint(p))
				}
			}()
			lr := rand.New(rand.NewSource(seeds[c]))
			var mine []int32
			for n := 0; n < ops && !stop.Load(); n++ {
				tok := fmt.Sprintf("c%dn%d.", c, n)
				var sql string
				if len(mine) > 0 && lr.Intn(3) == 0 {
					// reads of rows all over the table: buffer-pool misses whose victims are other clients' dirty pages
					other := int32(lr.Intn(clients)*100000 + lr.Intn(n+1))
					db.S.ExecuteSQL(fmt.Sprintf("SELECT id, k FROM cw WHERE id = %d;", other))
					continue
				}
				if len(mine) == 0 || lr.Intn(3) == 0 {
					id := int32(c*100000 + n)
					sql, _ = sqlx.InsertSQL("cw", crashlab.Cols, []rm.Row{{rm.Int(id), rm.Int(int32(c)), rm.Str(tok + strings.Repeat("x", lr.Intn(700)))}})
					mine = append(mine, id)
				} else {
					id := mine[lr.Intn(len(mine))]
					sql = fmt.Sprintf("UPDATE cw SET v = '%s' WHERE id = %d;", tok+strings.Repeat("y", lr.Intn(300)), id)
				}
				err, _ := db.S.ExecuteSQL(sql)
				pos := rc.Len()
				rc.Mark("COMMIT-RET", c*1000+n)
				if err == nil {
					mu.Lock()
					commits = append(commits, c08Commit{pos: pos, txn: -1, token: tok, desc: clipStr(sql, 120)})
					mu.Unlock()
				}
			}
		}(c)
	}
	// background: forced checkpoints and statistics scans
	wg.Add(1)
	go func() {
		defer wg.Done()
		defer func() {
			if p := recover(); p != nil {
				failed.Store(fmt.Sprint(p))
			}
		}()
		for n := 0; n < 6 && !stop.Load(); n++ {
			db.S.ForceCheckpointingForTestcase()
			db.UpdateStats()
		}
	}()
	wg.Wait()
	stop.Store(true)
	if f := failed.Load(); f != nil {
		res.Inconclusive = "concurrent workload panicked: " + clipStr(f.(string), 200)
		return nil, nil, nil
	}
	db.S.GetSamehadaInstance().GetLogManager().Flush()
	events := rc.Events
	rc.On = false
	guarded(func() { db.S.ShutdownForTescase() })
	res.Add("concurrent_clients", int64(clients))
	return events, commits, map[string]any{"memKB": memKB, "clients": clients, "ops_per_client": ops, "events": len(events), "log_write_delay": rc.LogDelay.String()}
}

// c08Boundary: records that straddle the END OF THE LOG BUFFER, followed by a page write that is not an eviction. After any forced
// log flush the buffer is empty; read-only statements then append a fixed number of unforced bytes each (measured, not assumed:
// statements are issued until the recorder sees the buffer-full write). The class walks the fill level towards the buffer end in
// steps of one read-only statement and, at each of 8 distances (0-7 statements before the end: the scenario appends about 6 statements worth of bytes), runs a small scenario whose records then fall across the end:
// an INSERT that is rolled back followed by a checkpoint, or a CREATE TABLE (its first heap page is written at once).
// The event sequence is judged by the ordinary trace rules.
func c08Boundary(env *core.Env, r *rand.Rand, idx int, res *core.CaseResult) ([]rec.Event, map[string]any) {
	get := rec.Install()
	db := sqlx.Open(fmt.Sprintf("%s/c08b_%d", env.TmpDir, idx), 4096, sqlx.Options{})
	rc := get()
	rec.Uninstall()
	defer func() { guarded(func() { db.S.ShutdownForTescase() }) }()
	if err := db.CreateTableSQL("bw", crashlab.Cols); err != nil {
		res.Inconclusive = "create table failed"
		return nil, nil
	}
	for i := 1; i <= 8; i++ {
		db.Auto(fmt.Sprintf("INSERT INTO bw(id, k, v) VALUES (%d, %d, 'pre%d.');", i, i, i))
	}
	bigWrites := func() int {
		n := 0
		for _, e := range rc.Events {
			if e.Kind == rec.WriteLog && len(e.Data) > 400000 {
				n++
			}
		}
		return n
	}
	sel := "SELECT id FROM bw WHERE id = 3;"
	// measure: read-only statements per buffer (the buffer is empty after the last INSERT's commit)
	perBuf := 0
	for before := bigWrites(); bigWrites() == before; perBuf++ {
		if perBuf > 200000 {
			res.Inconclusive = "read-only statements do not fill the log buffer"
			return nil, nil
		}
		db.Auto(sel)
	}
	res.Add("boundary_read_only_statements_per_log_buffer", int64(perBuf))
	kind := []string{"rollback-then-checkpoint", "create-table"}[r.Intn(2)]
	nextID := int32(100)
	scenarios := 0
	for k := 0; k < 8; k++ {
		// empty the buffer (a committed write), then walk to k statements before the buffer end
		db.Auto(fmt.Sprintf("UPDATE bw SET k = %d WHERE id = 1;", 1000+k))
		before := bigWrites()
		for i := 0; i < perBuf-1-k; i++ {
			db.Auto(sel)
		}
		if bigWrites() != before {
			continue // the buffer filled earlier than measured: this distance is not usable
		}
		switch kind {
		case "rollback-then-checkpoint":
			t := db.Begin()
			pay := strings.Repeat("b", 10+r.Intn(60))
			db.Exec(t, fmt.Sprintf("INSERT INTO bw(id, k, v) VALUES (%d, 5, 'bnd%d.%s');", nextID, nextID, pay))
			nextID++
			db.Abort(t)
			rc.Mark("CKPT-BEGIN", 0)
			db.S.ForceCheckpointingForTestcase()
			rc.Mark("CKPT-END", 0)
		default:
			if err := db.CreateTableSQL(fmt.Sprintf("bt%d", k), crashlab.Cols); err != nil {
				res.Inconclusive = "create table failed"
				return nil, nil
			}
		}
		scenarios++
	}
	res.Add("boundary_scenarios_run", int64(scenarios))
	res.Add("boundary_buffer_full_log_writes", int64(bigWrites()))
	res.Add("log_buffer_boundary_histories", 1)
	events := rc.Events
	rc.On = false
	return events, map[string]any{"class": "log-buffer-boundary", "scenario": kind, "read_only_statements_per_log_buffer": perBuf, "scenarios": scenarios, "events": len(events)}
}
