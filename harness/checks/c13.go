package checks

// C13 - the buffer pool always returns the latest bytes of a page.
//
// Subject: the real buffer.BufferPoolManager over the file-backed DiskManagerImpl (and the in-memory
// VirtualDiskManagerImpl) with a real LogManager. A case is a SCRIPT: a list of operations of 1-8 simulated users
// over page *handles* (a handle is one incarnation of a page, created by one NewPage call), generated from the
// case PRNG only and executed op by op on one goroutine (mode "seq"), or a parameter set for a goroutine variant
// (mode "go": every user is a goroutine). The oracle is an independent page-cache model:
//   handle -> live?, expected 4 096 bytes, who holds a pin (and through which *Page)
// and it demands exactly what the property states:
//   (a) FetchPage of a live page returns a page with that id and the bytes most recently written   [readback, fetch-nil]
//   (b) while a user holds a pin, its *Page keeps its id, its frame and its bytes                  [pinned-changed]
//   (c) NewPage never returns an id that is live or still pinned by somebody                       [newid-in-use]
//   (d) frames / page table: one reachable frame per id, pin counts equal the model's             [frame-table, pincount]
//   (e) after unpinning everything: every live page is fetched and compared; after FlushAllPages the data file read
//       back directly equals the model                                                             [readback, datafile]
// plus: no engine panic, and the pool mutex is free after every call                                [panic, mutex-leak].
// Fetching a page that was deallocated (and not allocated again) is not constrained by the property: nil or a page
// are both accepted, the pin is tracked; only the pool's health afterwards is checked.
//
// Every case carries input-derived tags computed by a dry run of the script (no engine): "dealloc-skiplist-style",
// "dealloc-nowait", "dealloc-nowait-resident", "dealloc-nowait-cold", "dealloc-while-pinned", "fetch-deallocated",
// "new-unpinned-unwritten", "goroutines", "concurrent-flush". A failing sequential script is cut after the failing
// op and shrunk (delta debugging against the real engine, same deviation kind) before it is reported.

import (
	"errors"
	"crypto/sha1"
	"encoding/binary"
	"encoding/hex"
	"encoding/json"
	"fmt"
	"os"
	"path/filepath"
	"reflect"
	"runtime"
	"sort"
	"strconv"
	"strings"
	"sync"
	"sync/atomic"
	"time"

	"github.com/ryogrid/SamehadaDB/lib/recovery"
	"github.com/ryogrid/SamehadaDB/lib/storage/buffer"
	"github.com/ryogrid/SamehadaDB/lib/storage/disk"
	"github.com/ryogrid/SamehadaDB/lib/storage/page"
	"github.com/ryogrid/SamehadaDB/lib/types"

	"verifharness/internal/core"
)

const c13PageSize = 4096

var c13Pools = []int{1, 2, 3, 5, 10, 32}

// classes of generated cases (index = idx % 20)
var c13ClassTable = []string{
	"benign", "benign", "benign", "benign", "benign",
	"skiplist", "skiplist", "skiplist", "skiplist", "skiplist",
	"hashjoin", "hashjoin", "hashjoin",
	"hostile-sl", "hostile-sl", // skip-list style while others hold pins, fetch of deallocated ids
	"hostile-nw", "hostile-nw", // every form, including no-wait deallocation of pinned pages
	"unwritten",
	"go", "go-flush",
}

// C13Case is the concrete, replayable input of one case.
type C13Case struct {
	Mode  string   `json:"mode"` // seq | go
	Class string   `json:"class,omitempty"`
	Pool  int      `json:"pool"`
	Disk  string   `json:"disk"` // file | mem
	Users int      `json:"users"`
	Ops   []string `json:"ops,omitempty"` // seq: "<user> <op> [handle] [arg]"
	// goroutine variant
	Steps   int   `json:"steps,omitempty"`
	GoSeed  int64 `json:"go_seed,omitempty"`
	Flush   bool  `json:"flush,omitempty"`
	Dealloc bool  `json:"dealloc,omitempty"`
}

func init() {
	core.Register(&core.Check{
		ID:    "C13",
		Level: "exploration",
		Rule: "case = script of 200-1500 (quick) / 200-5000 (thorough) buffer-pool operations by 1-8 simulated users on one goroutine " +
			"(new, fetch, full or partial overwrite with a self-describing checksummed pattern, verify, unpin dirty/clean, FlushPage, FlushAllPages, FlushAllDirtyPages, " +
			"skip-list-style and hash-join-style deallocation, hostile deallocation of resident / pinned pages, fetch of deallocated ids) or a goroutine variant (2-8 user goroutines); " +
			"pool sizes 1,2,3,5,10,32 x file-backed / in-memory disk manager x 9 classes, assigned round-robin by case index; working set larger than the pool. " +
			"Oracle: page-cache model (handle -> bytes, pins); see file header (a)-(e). " +
			"Non-trivial = a page with unflushed writes was evicted and fetched again, or a deallocated id was handed out again; distinct by hash of the script",
		Assumptions: []string{
			"the harness never asks for a frame while pool-many distinct pages are pinned in the model (pool exhaustion by the caller is not a violation)",
			"UnpinPage(clean) is used only by a holder that wrote nothing during its pin; a writer always unpins dirty",
			"page-table reachability is observed by reading the unexported field pageTable through reflection (read-only); without it only GetPages() is used",
			"in the goroutine variant users exclude each other per page with a harness lock (the pool does not promise write exclusion); verdicts of that variant depend on the Go scheduler",
			"fetching a deallocated id that was not allocated again is unconstrained (nil or a page)",
		},
		NumCases: func(env *core.Env) int {
			if env.Thorough() {
				return 40000
			}
			return 400
		},
		RunCase:     c13Run,
		Witness:     c13Witness,
		CaseTimeout: 90 * time.Second,
		Vacuity: func(env *core.Env, agg *core.Aggregate) []string {
			var v []string
			for _, k := range []string{"dirty_evicted_then_fetched", "id_reused", "fetch_nonresident", "copinned_fetches", "datafile_pages_compared", "go_cases", "bytes_compared"} {
				if agg.Stats[k] == 0 {
					v = append(v, "counter "+k+" is zero")
				}
			}
			if n := len(agg.Sets["pool_x_class"]); n < 40 {
				v = append(v, fmt.Sprintf("only %d pool x class combinations were run", n))
			}
			return v
		},
		Extra: func(env *core.Env, agg *core.Aggregate) map[string]any {
			return map[string]any{"page_table_observed_by_reflection": agg.Stats["table_reflection_ok"] > 0,
				"trigger_tags_under_which_the_unchanged_tree_fails": []string{"dealloc-nowait", "fetch-deallocated", "new-unpinned-unwritten", "concurrent-flush"},
				"classes": "benign, skiplist (skip-list style, sole holder), hashjoin (no-wait styles, nobody else pinned), hostile-sl (skip-list style while others pin; half of the cases also fetch deallocated ids), " +
					"hostile-nw (every form), unwritten (new page unpinned clean without a write), go (goroutines, no flush calls), go-flush (goroutines with FlushPage/FlushAllPages/FlushAllDirtyPages)"}
		},
	})
	core.SetCrashTagHook("C13", func(env *core.Env, idx int) []string { return c13Tags(c13Gen(env, idx)) })
}

// ---------------------------------------------------------------------------------------------
// self-describing page pattern (harness side only)

func c13Sum(b []byte) uint64 { // FNV-1a 64
	h := uint64(14695981039346656037)
	for _, x := range b {
		h ^= uint64(x)
		h *= 1099511628211
	}
	return h
}

type c13Prng uint64

func (p *c13Prng) next() uint64 { // splitmix64
	*p += 0x9E3779B97F4A7C15
	z := uint64(*p)
	z = (z ^ (z >> 30)) * 0xBF58476D1CE4E5B9
	z = (z ^ (z >> 27)) * 0x94D049BB133111EB
	return z ^ (z >> 31)
}

// c13Full fills m with: "C13P" | page id | version | user | payload(prng) | checksum over [0,4088).
func c13Full(m *[c13PageSize]byte, pid int32, ver uint32, user int, salt uint64) {
	copy(m[0:4], "C13P")
	binary.LittleEndian.PutUint32(m[4:8], uint32(pid))
	binary.LittleEndian.PutUint32(m[8:12], ver)
	binary.LittleEndian.PutUint32(m[12:16], uint32(user))
	p := c13Prng(uint64(pid)<<40 ^ uint64(ver)<<8 ^ uint64(user) ^ salt*0x9E3779B97F4A7C15)
	for i := 16; i < c13PageSize-8; i += 8 {
		binary.LittleEndian.PutUint64(m[i:i+8], p.next())
	}
	binary.LittleEndian.PutUint64(m[c13PageSize-8:], c13Sum(m[:c13PageSize-8]))
}

func c13Describe(b []byte) string {
	if len(b) < c13PageSize {
		return fmt.Sprintf("short page (%d bytes)", len(b))
	}
	zero := true
	for _, x := range b {
		if x != 0 {
			zero = false
			break
		}
	}
	if zero {
		return "all zero"
	}
	ok := binary.LittleEndian.Uint64(b[c13PageSize-8:]) == c13Sum(b[:c13PageSize-8])
	return fmt.Sprintf("magic=%q page=%d version=%d user=%d checksum_consistent=%v", string(b[0:4]), int32(binary.LittleEndian.Uint32(b[4:8])),
		binary.LittleEndian.Uint32(b[8:12]), binary.LittleEndian.Uint32(b[12:16]), ok)
}

func c13Diff(got, want []byte) (first, n int) {
	first = -1
	for i := range want {
		if i >= len(got) || got[i] != want[i] {
			if first < 0 {
				first = i
			}
			n++
		}
	}
	return
}

// ---------------------------------------------------------------------------------------------
// engine wrapper (observation only)

type c13Eng struct {
	dm    disk.DiskManager
	bpm   *buffer.BufferPoolManager
	path  string
	kind  string
	fault *c13FaultDisk // fails the next page read when armed
	mu    *sync.Mutex   // the pool's mutex (through reflection), nil if unavailable
	table reflect.Value // the pool's page table (through reflection), invalid if unavailable
}

var c13EngSeq int64

func c13NewEng(env *core.Env, c *C13Case) *c13Eng {
	dir := env.TmpDir
	if dir == "" {
		dir = os.TempDir()
	}
	n := atomic.AddInt64(&c13EngSeq, 1)
	e := &c13Eng{kind: c.Disk, path: filepath.Join(dir, fmt.Sprintf("c13_%d_%d.db", os.Getpid(), n))}
	os.Remove(e.path)
	os.Remove(strings.TrimSuffix(e.path, ".db") + ".log")
	if c.Disk == "mem" {
		e.dm = disk.NewVirtualDiskManagerImpl(e.path)
	} else {
		e.dm = disk.NewDiskManagerImpl(e.path)
	}
	if c.Mode == "go" && c.Flush && c.GoSeed%3 != 0 {
		// slow page writes (0.2 - 2 ms): the flush calls stay inside their write loops long enough for other users to evict,
		// deallocate and re-use the pages and buffers they work on
		e.dm = &c13SlowDisk{DiskManager: e.dm, delay: time.Duration(200+c.GoSeed%1800) * time.Microsecond}
	}
	e.fault = &c13FaultDisk{DiskManager: e.dm}
	e.dm = e.fault
	lm := recovery.NewLogManager(&e.dm)
	e.bpm = buffer.NewBufferPoolManager(uint32(c.Pool), e.dm, lm)
	func() {
		defer func() { recover() }()
		v := reflect.ValueOf(e.bpm).Elem()
		if f := v.FieldByName("mutex"); f.IsValid() && f.Kind() == reflect.Ptr && f.Type().Elem() == reflect.TypeOf(sync.Mutex{}) && !f.IsNil() {
			e.mu = (*sync.Mutex)(f.UnsafePointer())
		}
		if f := v.FieldByName("pageTable"); f.IsValid() && f.Kind() == reflect.Map {
			e.table = f
		}
	}()
	return e
}

// c13FaultDisk fails ONE page read when armed (a transient device error); inert otherwise.
type c13FaultDisk struct {
	disk.DiskManager
	failNextRead atomic.Bool
	failed       atomic.Int64
}

func (d *c13FaultDisk) ReadPage(id types.PageID, b []byte) error {
	if d.failNextRead.CompareAndSwap(true, false) {
		d.failed.Add(1)
		return errors.New("injected read error")
	}
	return d.DiskManager.ReadPage(id, b)
}

// c13SlowDisk delays every page write (a slow device).
type c13SlowDisk struct {
	disk.DiskManager
	delay time.Duration
}

func (d *c13SlowDisk) WritePage(id types.PageID, b []byte) error {
	time.Sleep(d.delay / 2)
	err := d.DiskManager.WritePage(id, b)
	time.Sleep(d.delay / 2)
	return err
}

func (e *c13Eng) close() {
	func() {
		defer func() { recover() }()
		e.dm.ShutDown()
	}()
	os.Remove(e.path)
	os.Remove(strings.TrimSuffix(e.path, ".db") + ".log")
}

// mutexFree reports whether the pool mutex can be taken (true also when it cannot be observed).
func (e *c13Eng) mutexFree(afterNil bool) bool {
	if e.mu != nil {
		if e.mu.TryLock() {
			e.mu.Unlock()
			return true
		}
		return false
	}
	if !afterNil {
		return true
	}
	// fallback without reflection: FlushPage of an id that does not exist takes and releases the mutex
	done := make(chan struct{})
	go func() { defer func() { recover(); close(done) }(); e.bpm.FlushPage(types.PageID(-7)) }()
	select {
	case <-done:
		return true
	case <-time.After(20 * time.Second):
		return false
	}
}

// readTable returns page id -> frame, or nil when the table cannot be observed.
func (e *c13Eng) readTable() (t map[int32]int) {
	if !e.table.IsValid() {
		return nil
	}
	defer func() {
		if recover() != nil {
			t = nil
		}
	}()
	t = map[int32]int{}
	it := e.table.MapRange()
	for it.Next() {
		t[int32(it.Key().Int())] = int(it.Value().Uint())
	}
	return t
}

// diskPage reads page pid straight from the data file / memory file. ok=false: nothing stored there (past the end).
func (e *c13Eng) diskPage(pid int32, whole []byte) ([]byte, bool) {
	if e.kind == "mem" {
		buf := make([]byte, c13PageSize)
		var err error
		func() {
			defer func() {
				if p := recover(); p != nil {
					err = fmt.Errorf("%v", p)
				}
			}()
			err = e.dm.ReadPage(types.PageID(pid), buf)
		}()
		if err != nil {
			return nil, false
		}
		return buf, true
	}
	off := int(pid) * c13PageSize
	if off >= len(whole) {
		return nil, false
	}
	buf := make([]byte, c13PageSize)
	copy(buf, whole[off:])
	return buf, true
}

// ---------------------------------------------------------------------------------------------
// the model + executor of sequential scripts. eng == nil: dry run (tags, generator bookkeeping).

type c13Pin struct {
	wrote bool
	pg    *page.Page
	snap  []byte // zombie pins: bytes at fetch time
}

type c13Handle struct {
	id           int
	live         bool
	materialized bool // some holder unpinned it dirty (so it reaches the disk before its frame is reused)
	pins         map[int]*c13Pin
	late         bool // skip-list style removal in two steps: marked + unpinned, DeallocatePage(id,false) still to come
	// run time
	pid       int32
	data      *[c13PageSize]byte
	ver       uint32
	unflushed bool
}

type c13Viol struct {
	kind, detail string
	at           int // op index
}

type c13State struct {
	c       *C13Case
	h       map[int]*c13Handle
	order   []int // handles in creation order
	tags    map[string]bool
	eng     *c13Eng
	res     *core.CaseResult
	viol    *c13Viol
	opIdx   int
	livePid map[int32]int // run time: page id -> live handle
	maxPins int
}

func c13NewState(c *C13Case, eng *c13Eng, res *core.CaseResult) *c13State {
	return &c13State{c: c, h: map[int]*c13Handle{}, tags: map[string]bool{}, eng: eng, res: res, livePid: map[int32]int{}}
}

func (s *c13State) add(k string, n int64) {
	if s.res != nil {
		s.res.Add(k, n)
	}
}

func (s *c13State) violate(kind, format string, a ...any) {
	if s.viol == nil {
		s.viol = &c13Viol{kind: kind, detail: fmt.Sprintf(format, a...), at: s.opIdx}
	}
}

func (s *c13State) distinctPinned() int {
	n := 0
	for _, h := range s.h {
		if len(h.pins) > 0 {
			n++
		}
	}
	return n
}

func (s *c13State) liveCount() int {
	n := 0
	for _, h := range s.h {
		if h.live {
			n++
		}
	}
	return n
}

func (s *c13State) canFrame() bool { return s.distinctPinned() < s.c.Pool }

func (s *c13State) otherPins(h *c13Handle, u int) int {
	n := 0
	for x := range h.pins {
		if x != u {
			n++
		}
	}
	return n
}

// guarded runs an engine call; a panic becomes a violation.
func (s *c13State) guarded(what string, f func()) (ok bool) {
	defer func() {
		if p := recover(); p != nil {
			s.violate("panic", "%s panicked: %v", what, p)
			ok = false
		}
	}()
	f()
	return true
}

func (s *c13State) afterCall(what string, gotNil bool) {
	if s.viol != nil {
		return
	}
	if !s.eng.mutexFree(gotNil) {
		s.violate("mutex-leak", "after %s the pool mutex is still held: every later call on the pool blocks forever", what)
	}
}

func (s *c13State) pageBytes(pg *page.Page) []byte { return pg.Data()[:] }

func (s *c13State) compare(kind, what string, h *c13Handle, got []byte) {
	s.add("bytes_compared", c13PageSize)
	first, n := c13Diff(got, h.data[:])
	if n > 0 {
		s.violate(kind, "%s: page %d (handle %d) differs from the model in %d bytes, first at offset %d; observed {%s}, expected {%s}",
			what, h.pid, h.id, n, first, c13Describe(got), c13Describe(h.data[:]))
	}
}

// parse "<user> <op> [handle] [arg]"
func c13Parse(op string) (u int, name string, hid int, arg string, ok bool) {
	f := strings.Fields(op)
	if len(f) < 2 {
		return
	}
	var err error
	if u, err = strconv.Atoi(f[0]); err != nil || u < 0 {
		return
	}
	name = f[1]
	hid = -1
	if len(f) >= 3 {
		if hid, err = strconv.Atoi(f[2]); err != nil {
			return
		}
	}
	if len(f) >= 4 {
		arg = f[3]
	}
	return u, name, hid, arg, true
}

// step executes one op if it is enabled in the model; disabled ops are skipped (this keeps shrunk scripts valid).
func (s *c13State) step(op string) (enabled bool) {
	u, name, hid, arg, ok := c13Parse(op)
	if !ok || u >= s.c.Users {
		return false
	}
	h := s.h[hid]
	dry := s.eng == nil
	switch name {
	case "new":
		if hid < 0 || h != nil || !s.canFrame() {
			return false
		}
		h = &c13Handle{id: hid, live: true, pins: map[int]*c13Pin{}}
		pin := &c13Pin{}
		if !dry {
			var pg *page.Page
			if !s.guarded("NewPage", func() { pg = s.eng.bpm.NewPage() }) {
				return true
			}
			s.afterCall("NewPage", pg == nil)
			if s.viol != nil {
				return true
			}
			if pg == nil {
				s.violate("new-nil", "NewPage returned nil although only %d of %d frames are pinned in the model", s.distinctPinned(), s.c.Pool)
				return true
			}
			pid := int32(pg.GetPageID())
			if lh, isLive := s.livePid[pid]; isLive {
				s.violate("newid-in-use", "NewPage returned page id %d, which is the id of the live page of handle %d", pid, lh)
				return true
			}
			for _, o := range s.h {
				if o.pid == pid && len(o.pins) > 0 {
					s.violate("newid-in-use", "NewPage returned page id %d, which is deallocated but still pinned by %d user(s) (handle %d)", pid, len(o.pins), o.id)
					return true
				}
			}
			reused := false
			for _, o := range s.h {
				if o.pid == pid {
					reused = true
				}
			}
			if reused {
				s.add("id_reused", 1)
			}
			h.pid, h.data = pid, new([c13PageSize]byte)
			// a new page has no bytes written yet; the engine hands out a zeroed buffer and the model expects
			// zeros from later reads of a never-written page
			if first, n := c13Diff(s.pageBytes(pg), h.data[:]); n > 0 {
				s.add("new_page_not_zero", 1)
				_ = first
				copy(h.data[:], s.pageBytes(pg)) // not constrained by the property: adopt
			}
			pin.pg = pg
			s.livePid[pid] = hid
		}
		h.pins[u] = pin
		s.h[hid] = h
		s.order = append(s.order, hid)
	case "fetch":
		if h == nil || !h.live || h.pins[u] != nil || (len(h.pins) == 0 && !s.canFrame()) {
			return false
		}
		pin := &c13Pin{}
		if !dry {
			resident := s.resident(h.pid)
			var pg *page.Page
			if !s.guarded("FetchPage", func() { pg = s.eng.bpm.FetchPage(types.PageID(h.pid)) }) {
				return true
			}
			s.afterCall(fmt.Sprintf("FetchPage(%d) (returned nil=%v)", h.pid, pg == nil), pg == nil)
			if s.viol != nil {
				return true
			}
			if pg == nil {
				s.violate("fetch-nil", "FetchPage(%d) of a live page (handle %d, version %d, ever unpinned dirty=%v) returned nil with %d of %d frames pinned in the model",
					h.pid, h.id, h.ver, h.materialized, s.distinctPinned(), s.c.Pool)
				return true
			}
			if resident {
				s.add("fetch_resident", 1)
			} else {
				s.add("fetch_nonresident", 1)
				if h.unflushed {
					s.add("dirty_evicted_then_fetched", 1)
				}
				h.unflushed = false
			}
			if len(h.pins) > 0 {
				s.add("copinned_fetches", 1)
			}
			if int32(pg.GetPageID()) != h.pid {
				s.violate("readback", "FetchPage(%d) returned a page object with id %d", h.pid, pg.GetPageID())
				return true
			}
			for _, o := range h.pins {
				if o.pg != pg {
					s.violate("frame-table", "FetchPage(%d) returned a different page object than the one another user holds pinned: two copies of one page", h.pid)
					return true
				}
			}
			s.compare("readback", fmt.Sprintf("FetchPage(%d), resident before the call=%v", h.pid, resident), h, s.pageBytes(pg))
			pin.pg = pg
		}
		h.pins[u] = pin
	case "write":
		if h == nil || !h.live || h.pins[u] == nil {
			return false
		}
		h.pins[u].wrote = true
		if !dry {
			a, _ := strconv.ParseUint(arg, 10, 64)
			pg := h.pins[u].pg
			h.ver++
			if a%3 == 0 { // full overwrite
				c13Full(h.data, h.pid, h.ver, u, a)
				copy(pg.Data()[:], h.data[:])
				s.add("writes_full", 1)
			} else { // partial overwrite: version field, a run of bytes, checksum
				p := c13Prng(a)
				off := 16 + int(p.next()%uint64(c13PageSize-8-16-1))
				ln := 1 + int(p.next()%512)
				if off+ln > c13PageSize-8 {
					ln = c13PageSize - 8 - off
				}
				if string(h.data[0:4]) != "C13P" { // first write to a zero page is always full
					c13Full(h.data, h.pid, h.ver, u, a)
					copy(pg.Data()[:], h.data[:])
				} else {
					binary.LittleEndian.PutUint32(h.data[8:12], h.ver)
					for i := 0; i < ln; i++ {
						h.data[off+i] = byte(p.next())
					}
					binary.LittleEndian.PutUint64(h.data[c13PageSize-8:], c13Sum(h.data[:c13PageSize-8]))
					d := pg.Data()
					copy(d[8:12], h.data[8:12])
					copy(d[off:off+ln], h.data[off:off+ln])
					copy(d[c13PageSize-8:], h.data[c13PageSize-8:])
				}
				s.add("writes_partial", 1)
			}
			h.unflushed = true
		}
	case "verify":
		if h == nil || h.pins[u] == nil {
			return false
		}
		if !dry {
			s.checkPin(h, u, true)
		}
	case "unpin":
		if h == nil || h.pins[u] == nil {
			return false
		}
		pin := h.pins[u]
		dirty := arg == "d" || pin.wrote
		if h.live && !dirty && !h.materialized {
			s.tags["new-unpinned-unwritten"] = true
		}
		if dirty {
			h.materialized = true
		}
		if !dry {
			s.checkPin(h, u, true)
			if s.viol != nil {
				return true
			}
			if !s.guarded(fmt.Sprintf("UnpinPage(%d,%v)", h.pid, dirty), func() { s.eng.bpm.UnpinPage(types.PageID(h.pid), dirty) }) {
				return true
			}
			s.afterCall("UnpinPage", false)
			if dirty {
				h.unflushed = true
			}
		}
		delete(h.pins, u)
	case "flush":
		if h == nil || !h.live {
			return false
		}
		if !dry {
			if s.resident(h.pid) {
				h.unflushed = false
			}
			if !s.guarded("FlushPage", func() { s.eng.bpm.FlushPage(types.PageID(h.pid)) }) {
				return true
			}
			s.afterCall("FlushPage", false)
		}
		if len(h.pins) > 0 {
			// a pinned page is resident: what its holders wrote so far is on disk now, so they may unpin it clean
			// (flush while pinned, then a clean unpin, then eviction: the next fetch has to find the flushed bytes)
			for _, p := range h.pins {
				if p.wrote {
					p.wrote = false
					s.add("flushes_of_a_page_modified_under_a_pin", 1)
				}
			}
			h.materialized = true
		}
	case "flushall", "flushdirty":
		if !dry {
			for _, o := range s.h {
				if o.live && s.resident(o.pid) {
					o.unflushed = false
				}
			}
			if name == "flushall" {
				if !s.guarded("FlushAllPages", func() { s.eng.bpm.FlushAllPages() }) {
					return true
				}
			} else {
				if !s.guarded("FlushAllDirtyPages", func() { s.eng.bpm.FlushAllDirtyPages() }) {
					return true
				}
			}
			s.afterCall(name, false)
		}
	case "dealloc_sl": // skip-list style: SetIsDeallocated(true) on the pinned page, unpin, DeallocatePage(id,false)
		if h == nil || !h.live || h.pins[u] == nil {
			return false
		}
		s.tags["dealloc-skiplist-style"] = true
		if s.otherPins(h, u) > 0 {
			s.tags["dealloc-while-pinned"] = true
		}
		if !dry {
			s.checkPin(h, u, true)
			if s.viol != nil {
				return true
			}
			pg := h.pins[u].pg
			if !s.guarded("skip-list style deallocation", func() {
				pg.SetIsDeallocated(true)
				s.eng.bpm.UnpinPage(types.PageID(h.pid), true)
				s.eng.bpm.DeallocatePage(types.PageID(h.pid), false)
			}) {
				return true
			}
			s.afterCall("DeallocatePage(id,false)", false)
			s.kill(h)
		}
		delete(h.pins, u)
		h.live = false
	case "dealloc_sl1": // first half of SkipList.Remove: SetIsDeallocated(true) on the pinned page, unpin. The page is gone for the model;
		// its id may be handed out again once the frame is evicted - before the late DeallocatePage(id,false) of step 2 arrives
		if h == nil || !h.live || h.pins[u] == nil || s.otherPins(h, u) > 0 {
			return false
		}
		s.tags["dealloc-skiplist-style"] = true
		s.tags["dealloc-skiplist-two-steps"] = true
		if !dry {
			s.checkPin(h, u, true)
			if s.viol != nil {
				return true
			}
			pg := h.pins[u].pg
			if !s.guarded("skip-list style removal, step 1", func() {
				pg.SetIsDeallocated(true)
				s.eng.bpm.UnpinPage(types.PageID(h.pid), true)
			}) {
				return true
			}
			s.afterCall("SetIsDeallocated+UnpinPage", false)
			s.kill(h)
		}
		delete(h.pins, u)
		h.live = false
		h.late = true
	case "dealloc_sl2": // second half: the remover's DeallocatePage(id,false), possibly long after the id got a new owner
		if h == nil || !h.late {
			return false
		}
		if !dry {
			if !s.guarded("late DeallocatePage(id,false)", func() { s.eng.bpm.DeallocatePage(types.PageID(h.pid), false) }) {
				return true
			}
			s.afterCall("late DeallocatePage(id,false)", false)
		}
		h.late = false
	case "dealloc_hj": // hash-join style: unpin, DeallocatePage(id,true)
		if h == nil || !h.live || h.pins[u] == nil {
			return false
		}
		s.tags["dealloc-nowait"] = true
		s.tags["dealloc-nowait-resident"] = true
		if s.otherPins(h, u) > 0 {
			s.tags["dealloc-while-pinned"] = true
		}
		if !dry {
			s.checkPin(h, u, true)
			if s.viol != nil {
				return true
			}
			if !s.guarded("hash-join style deallocation", func() {
				s.eng.bpm.UnpinPage(types.PageID(h.pid), true)
				s.eng.bpm.DeallocatePage(types.PageID(h.pid), true)
			}) {
				return true
			}
			s.afterCall("DeallocatePage(id,true)", false)
			s.kill(h)
		}
		delete(h.pins, u)
		h.live = false
	case "dealloc_nw": // DeallocatePage(id,true) without holding a pin (what HashJoinExecutor.Next does at the end)
		if h == nil || !h.live {
			return false
		}
		s.tags["dealloc-nowait"] = true
		if len(h.pins) > 0 {
			s.tags["dealloc-while-pinned"] = true
		} else {
			s.tags["dealloc-nowait-cold"] = true
		}
		if !dry {
			if !s.guarded("DeallocatePage(id,true)", func() { s.eng.bpm.DeallocatePage(types.PageID(h.pid), true) }) {
				return true
			}
			s.afterCall("DeallocatePage(id,true)", false)
			s.kill(h)
		}
		h.live = false
	case "fetchfail": // FetchPage of a live, unpinned, non-resident page whose read fails once: nil is the only allowed answer, and the pool stays whole
		if h == nil || !h.live || len(h.pins) != 0 || !s.canFrame() {
			return false
		}
		if !dry {
			if s.resident(h.pid) {
				return false
			}
			s.eng.fault.failNextRead.Store(true)
			var pg *page.Page
			ok := s.guarded("FetchPage with a failing read", func() { pg = s.eng.bpm.FetchPage(types.PageID(h.pid)) })
			armed := s.eng.fault.failNextRead.Swap(false)
			if !ok {
				return true
			}
			s.afterCall(fmt.Sprintf("FetchPage(%d) whose page read failed (returned nil=%v)", h.pid, pg == nil), pg == nil)
			if s.viol != nil {
				return true
			}
			if armed {
				// the pool did not read at all: the page was resident after all (not observable) - treat as an ordinary fetch + unpin
				if pg != nil {
					s.compare("readback", fmt.Sprintf("FetchPage(%d)", h.pid), h, s.pageBytes(pg))
					s.eng.bpm.UnpinPage(types.PageID(h.pid), false)
				}
				return true
			}
			s.add("fetches_with_a_failed_read", 1)
			if pg != nil {
				s.violate("readback", "FetchPage(%d) returned a page although the device could not read it (content cannot be the stored bytes)", h.pid)
				return true
			}
		}
		s.tags["read-error"] = true
	case "fetchdead":
		if h == nil || h.live || h.pins[u] != nil || !s.canFrame() {
			return false
		}
		if !dry {
			if _, again := s.livePid[h.pid]; again {
				return false // the id lives again under another handle: not a deallocated id any more
			}
		}
		s.tags["fetch-deallocated"] = true
		pin := &c13Pin{}
		if !dry {
			var pg *page.Page
			if !s.guarded("FetchPage of a deallocated id", func() { pg = s.eng.bpm.FetchPage(types.PageID(h.pid)) }) {
				return true
			}
			s.afterCall(fmt.Sprintf("FetchPage(%d) of a deallocated id (returned nil=%v)", h.pid, pg == nil), pg == nil)
			if s.viol != nil {
				return true
			}
			if pg == nil {
				s.add("fetchdead_nil", 1)
				return true
			}
			s.add("fetchdead_page", 1)
			pin.pg = pg
			pin.snap = append([]byte(nil), s.pageBytes(pg)...)
		}
		h.pins[u] = pin
	default:
		return false
	}
	if n := s.distinctPinned(); n > s.maxPins {
		s.maxPins = n
	}
	return true
}

// kill: run-time bookkeeping of a deallocation.
func (s *c13State) kill(h *c13Handle) {
	delete(s.livePid, h.pid)
	for _, p := range h.pins { // holders of a deallocated page keep "their bytes": snapshot
		if p.snap == nil && p.pg != nil {
			p.snap = append([]byte(nil), h.data[:]...)
		}
	}
}

func (s *c13State) resident(pid int32) bool {
	if t := s.eng.readTable(); t != nil {
		_, ok := t[pid]
		return ok
	}
	for _, pg := range s.eng.bpm.GetPages() {
		if pg != nil && int32(pg.GetPageID()) == pid {
			return true
		}
	}
	return false
}

// checkPin: (b) for one holder.
func (s *c13State) checkPin(h *c13Handle, u int, bytes bool) {
	p := h.pins[u]
	if p == nil || p.pg == nil || s.viol != nil {
		return
	}
	if int32(p.pg.GetPageID()) != h.pid {
		s.violate("pinned-changed", "user %d holds a pin on page %d (handle %d) but its page object now says id %d", u, h.pid, h.id, p.pg.GetPageID())
		return
	}
	if !bytes {
		return
	}
	if h.live {
		s.compare("pinned-changed", fmt.Sprintf("bytes seen by user %d through its pin", u), h, s.pageBytes(p.pg))
	} else if p.snap != nil {
		s.add("bytes_compared", c13PageSize)
		if first, n := c13Diff(s.pageBytes(p.pg), p.snap); n > 0 {
			s.violate("pinned-changed", "user %d holds a pin on deallocated page %d (handle %d); its bytes changed under the pin (%d bytes, first at %d): observed {%s}",
				u, h.pid, h.id, n, first, c13Describe(s.pageBytes(p.pg)))
		}
	}
}

// checkFrames: (b) for all holders + (d).
func (s *c13State) checkFrames(bytes bool) {
	if s.viol != nil {
		return
	}
	pages := s.eng.bpm.GetPages()
	table := s.eng.readTable()
	frameOf := map[*page.Page]int{}
	for f, pg := range pages {
		if pg != nil {
			frameOf[pg] = f
		}
	}
	if table != nil {
		s.add("table_reflection_ok", 1)
		if len(table) > s.c.Pool {
			s.violate("frame-table", "page table has %d entries for %d frames", len(table), s.c.Pool)
			return
		}
		used := map[int]int32{}
		ids := make([]int, 0, len(table))
		for pid := range table {
			ids = append(ids, int(pid))
		}
		sort.Ints(ids)
		for _, x := range ids {
			pid := int32(x)
			f := table[pid]
			if f < 0 || f >= len(pages) || pages[f] == nil {
				s.violate("frame-table", "page table maps page %d to frame %d, which holds nothing", pid, f)
				return
			}
			if got := int32(pages[f].GetPageID()); got != pid {
				s.violate("frame-table", "page table maps page %d to frame %d, which holds page %d", pid, f, got)
				return
			}
			if o, dup := used[f]; dup {
				s.violate("frame-table", "pages %d and %d are mapped to the same frame %d", o, pid, f)
				return
			}
			used[f] = pid
		}
		orph := 0
		for f, pg := range pages {
			if pg != nil {
				if tf, ok := table[int32(pg.GetPageID())]; !ok || tf != f {
					orph++
				}
			}
		}
		if orph > 0 {
			s.add("orphan_frames_observed", int64(orph))
		}
	}
	want := map[*page.Page]int32{}
	hids := make([]int, 0, len(s.h))
	for id := range s.h {
		hids = append(hids, id)
	}
	sort.Ints(hids)
	for _, id := range hids {
		h := s.h[id]
		var first *page.Page
		for u, p := range h.pins {
			if p.pg == nil {
				continue
			}
			want[p.pg]++
			if first == nil {
				first = p.pg
			} else if first != p.pg {
				s.violate("frame-table", "two users hold different page objects for page %d (handle %d)", h.pid, h.id)
				return
			}
			s.checkPin(h, u, bytes)
			if s.viol != nil {
				return
			}
			f, ok := frameOf[p.pg]
			if !ok {
				s.violate("pinned-changed", "user %d holds a pin on page %d (handle %d) but no frame holds its page object any more: the frame was given to another page", u, h.pid, h.id)
				return
			}
			if h.live && table != nil {
				if tf, ok := table[h.pid]; !ok {
					s.violate("frame-table", "live page %d (handle %d) is pinned by user %d but has no page-table entry", h.pid, h.id, u)
					return
				} else if tf != f {
					s.violate("frame-table", "live page %d (handle %d) is pinned by user %d in frame %d but the page table points to frame %d", h.pid, h.id, u, f, tf)
					return
				}
			}
		}
	}
	for f, pg := range pages {
		if pg == nil {
			continue
		}
		if int(pg.PinCount()) != int(want[pg]) {
			s.violate("pincount", "frame %d (page %d) has pin count %d, the model says %d", f, pg.GetPageID(), pg.PinCount(), want[pg])
			return
		}
		if want[pg] > 1 {
			s.add("frames_with_pincount_gt1_observed", 1)
		}
	}
}

// finish: unpin everything, (e).
func (s *c13State) finish() {
	hids := append([]int(nil), s.order...)
	for _, id := range hids {
		h := s.h[id]
		us := make([]int, 0, len(h.pins))
		for u := range h.pins {
			us = append(us, u)
		}
		sort.Ints(us)
		for _, u := range us {
			if s.viol != nil {
				return
			}
			s.opIdx = len(s.c.Ops)
			flag := "d" // dirty without a write is always allowed; clean only where the page surely reaches the disk
			if h.materialized || !h.live {
				flag = "c"
			}
			s.step(fmt.Sprintf("%d unpin %d %s", u, id, flag))
		}
	}
	s.checkFrames(false)
	if s.viol != nil {
		return
	}
	// every live page, through the pool
	for _, id := range hids {
		h := s.h[id]
		if !h.live {
			continue
		}
		s.step(fmt.Sprintf("0 fetch %d", id))
		if s.viol != nil {
			return
		}
		s.step(fmt.Sprintf("0 unpin %d c", id))
		if s.viol != nil {
			return
		}
		s.add("final_pages_fetched", 1)
	}
	// capacity: nothing is pinned now, so as many distinct live pages as the pool has frames can be pinned at once
	// (whatever an earlier refused call kept - a frame that went neither back to the free list nor to the replacer - is missing here)
	var held []int
	for _, id := range hids {
		if len(held) >= s.c.Pool {
			break
		}
		if h := s.h[id]; h.live {
			s.step(fmt.Sprintf("0 fetch %d", id))
			if s.viol != nil {
				return
			}
			held = append(held, id)
		}
	}
	if len(held) == s.c.Pool {
		s.add("final_capacity_audits_with_every_frame_pinned", 1)
	}
	for _, id := range held {
		s.step(fmt.Sprintf("0 unpin %d c", id))
		if s.viol != nil {
			return
		}
	}
	if !s.guarded("FlushAllPages", func() { s.eng.bpm.FlushAllPages() }) {
		return
	}
	s.afterCall("FlushAllPages", false)
	if s.viol != nil {
		return
	}
	var whole []byte
	if s.eng.kind != "mem" {
		whole, _ = os.ReadFile(s.eng.path)
	}
	zero := make([]byte, c13PageSize)
	for _, id := range hids {
		h := s.h[id]
		if !h.live {
			continue
		}
		got, ok := s.eng.diskPage(h.pid, whole)
		if !ok {
			s.add("datafile_pages_past_end", 1)
			got = zero // nothing was ever stored: equal to a never-written page
		}
		s.add("datafile_pages_compared", 1)
		s.compare("datafile", "data file read back directly after FlushAllPages", h, got)
		if s.viol != nil {
			return
		}
	}
}

// c13Tags: dry run of the script (or parameters of the goroutine variant) -> input-derived tags.
func c13Tags(c *C13Case) []string {
	tags := map[string]bool{}
	if c.Mode == "go" {
		tags["goroutines"] = true
		if c.Flush {
			tags["concurrent-flush"] = true
		}
		if c.Dealloc {
			tags["dealloc-skiplist-style"] = true
		}
	} else {
		s := c13NewState(c, nil, nil)
		for _, op := range c.Ops {
			s.step(op)
		}
		tags = s.tags
	}
	out := make([]string, 0, len(tags))
	for t := range tags {
		out = append(out, t)
	}
	sort.Strings(out)
	return out
}

// c13Exec runs a sequential script against a fresh engine. Returns the violation (nil = held) and the state.
func c13Exec(env *core.Env, c *C13Case, res *core.CaseResult) (*c13Viol, *c13State) {
	eng := c13NewEng(env, c)
	defer eng.close()
	s := c13NewState(c, eng, res)
	for i, op := range c.Ops {
		s.opIdx = i
		if s.step(op) {
			s.add("ops", 1)
			if res != nil {
				if _, name, _, _, ok := c13Parse(op); ok {
					res.Add("op_"+name, 1)
				}
			}
		} else {
			s.add("ops_skipped_disabled", 1)
		}
		if s.viol == nil {
			s.checkFrames(true)
		}
		if s.viol != nil {
			return s.viol, s
		}
	}
	s.opIdx = len(c.Ops)
	s.finish()
	return s.viol, s
}

// c13Shrink: cut after the failing op, then delta debugging (same deviation kind) first over whole handles
// (all ops that mention a handle are removed together), then over single ops. budget = engine ops that may be executed.
func c13Shrink(env *core.Env, c *C13Case, v *c13Viol, budget int) (*C13Case, *c13Viol, int) {
	cur := *c
	if v.at < len(c.Ops) {
		cur.Ops = append([]string(nil), c.Ops[:v.at+1]...)
	} else {
		cur.Ops = append([]string(nil), c.Ops...)
	}
	best := v
	runs, spent := 0, 0
	try := func(ops []string) bool {
		if spent >= budget && runs > 0 {
			return false
		}
		runs++
		t := cur
		t.Ops = ops
		nv, st := c13Exec(env, &t, nil)
		spent += st.opIdx + 1
		if nv != nil && nv.kind == v.kind {
			best = nv
			return true
		}
		return false
	}
	if !try(cur.Ops) { // the cut script must still fail
		cur.Ops = append([]string(nil), c.Ops...)
		return &cur, v, runs
	}
	// generic ddmin over "units"; drop(removed) builds the candidate script
	dd := func(units []int, drop func(removed map[int]bool) []string) {
		chunk := (len(units) + 1) / 2
		for chunk >= 1 && len(units) > 0 && spent < budget {
			removedAny := false
			for start := 0; start < len(units) && spent < budget; {
				end := start + chunk
				if end > len(units) {
					end = len(units)
				}
				rm := map[int]bool{}
				for _, u := range units[start:end] {
					rm[u] = true
				}
				cand := drop(rm)
				if len(cand) < len(cur.Ops) && try(cand) {
					cur.Ops = cand
					units = append(append([]int(nil), units[:start]...), units[end:]...)
					removedAny = true
				} else {
					start = end
				}
			}
			if chunk == 1 {
				if !removedAny {
					break
				}
				continue
			}
			chunk /= 2
		}
	}
	// 1. handles
	seen := map[int]bool{}
	var handles []int
	for _, op := range cur.Ops {
		if _, _, hid, _, ok := c13Parse(op); ok && hid >= 0 && !seen[hid] {
			seen[hid] = true
			handles = append(handles, hid)
		}
	}
	dd(handles, func(rm map[int]bool) []string {
		var out []string
		for _, op := range cur.Ops {
			if _, _, hid, _, ok := c13Parse(op); ok && hid >= 0 && rm[hid] {
				continue
			}
			out = append(out, op)
		}
		return out
	})
	// 2. single ops (positions in the current script; recomputed by dd through cur.Ops)
	for pass := 0; pass < 2 && spent < budget; pass++ {
		before := len(cur.Ops)
		chunk := len(cur.Ops) / 2
		for chunk >= 1 && spent < budget {
			removed := false
			for start := 0; start+chunk <= len(cur.Ops) && spent < budget; {
				cand := append(append([]string(nil), cur.Ops[:start]...), cur.Ops[start+chunk:]...)
				if try(cand) {
					cur.Ops = cand
					removed = true
				} else {
					start += chunk
				}
			}
			if chunk == 1 {
				if !removed {
					break
				}
				continue
			}
			chunk /= 2
		}
		if len(cur.Ops) == before {
			break
		}
	}
	// drop ops that are disabled in the shrunk script (handles are labels, nothing is renumbered)
	d := c13NewState(&cur, nil, nil)
	var kept []string
	for _, op := range cur.Ops {
		if d.step(op) {
			kept = append(kept, op)
		}
	}
	if len(kept) < len(cur.Ops) {
		spent = 0 // one more run is always allowed
		if try(kept) {
			cur.Ops = kept
		}
	}
	return &cur, best, runs
}

// ---------------------------------------------------------------------------------------------
// generator

func c13Params(idx int) (class string, pool int, dsk string) {
	class = c13ClassTable[idx%20]
	blk := idx / 20
	pool = c13Pools[(blk+idx%20)%6]
	dsk = "file"
	if (blk/6+idx)%3 == 0 {
		dsk = "mem"
	}
	return
}

func c13Gen(env *core.Env, idx int) *C13Case {
	rng := env.Rand(idx)
	class, pool, dsk := c13Params(idx)
	c := &C13Case{Mode: "seq", Class: class, Pool: pool, Disk: dsk, Users: 1 + rng.Intn(8)}
	maxOps := 1300
	if env.Thorough() {
		maxOps = 4800
	}
	if class == "go" || class == "go-flush" {
		c.Mode = "go"
		c.Users = 2 + rng.Intn(7)
		c.Steps = (200 + rng.Intn(maxOps)) / c.Users * 2
		c.GoSeed = rng.Int63()
		c.Flush = class == "go-flush"
		c.Dealloc = rng.Intn(2) == 0
		return c
	}
	nops := 200 + rng.Intn(maxOps)
	target := pool + 1 + rng.Intn(pool*2+3)
	maxHold := 1 + rng.Intn(3)
	withFetchDead := rng.Intn(2) == 0 // hostile classes: only half of the cases fetch deallocated ids
	readErrors := rng.Intn(4) == 0 // a quarter of the scripts meet transient read errors
	fetchDeadW := 3
	if withFetchDead && rng.Intn(3) == 0 {
		fetchDeadW = 40 // many fetches of deallocated ids in one script: whatever a refused fetch keeps (a frame, a lock) adds up
	}
	s := c13NewState(c, nil, nil)
	nextH := 0
	type cand struct {
		w  int
		op string
	}
	guard := 0
	for len(c.Ops) < nops && guard < nops*20 {
		guard++
		u := rng.Intn(c.Users)
		var holds, liveH, deadH []int
		for _, id := range s.order {
			h := s.h[id]
			if h.pins[u] != nil {
				holds = append(holds, id)
			}
			if h.live {
				liveH = append(liveH, id)
			} else {
				deadH = append(deadH, id)
			}
		}
		var cs []cand
		canFrame := s.canFrame()
		if canFrame && len(liveH) < target && len(holds) < maxHold {
			w := 8
			if len(liveH) < (target+1)/2 {
				w = 30
			}
			cs = append(cs, cand{w, fmt.Sprintf("%d new %d", u, nextH)})
		}
		if len(holds) < maxHold && len(liveH) > 0 {
			var id int
			switch r := rng.Intn(4); {
			case r < 2:
				id = liveH[rng.Intn(len(liveH))]
			case r == 2:
				k := len(liveH) - 1 - rng.Intn(min(3, len(liveH)))
				id = liveH[k]
			default:
				id = liveH[rng.Intn(min(3, len(liveH)))]
			}
			h := s.h[id]
			if h.pins[u] == nil && (len(h.pins) > 0 || canFrame) {
				cs = append(cs, cand{30, fmt.Sprintf("%d fetch %d", u, id)})
			}
		}
		if len(holds) > 0 {
			id := holds[rng.Intn(len(holds))]
			h := s.h[id]
			if h.live {
				cs = append(cs, cand{25, fmt.Sprintf("%d write %d %d", u, id, rng.Intn(1<<24))})
			}
			cs = append(cs, cand{5, fmt.Sprintf("%d verify %d", u, id)})
			id = holds[rng.Intn(len(holds))]
			h = s.h[id]
			flag := "d"
			if !h.pins[u].wrote && rng.Intn(10) < 7 && (h.materialized || class == "unwritten" || !h.live) {
				flag = "c"
			}
			w := 25
			if len(holds) >= maxHold {
				w = 45
			}
			cs = append(cs, cand{w, fmt.Sprintf("%d unpin %d %s", u, id, flag)})
			// deallocation by a holder
			id = holds[rng.Intn(len(holds))]
			h = s.h[id]
			if h.live && len(liveH) > target/2 {
				sole := s.otherPins(h, u) == 0
				switch class {
				case "skiplist":
					if sole {
						cs = append(cs, cand{6, fmt.Sprintf("%d dealloc_sl %d", u, id)})
						cs = append(cs, cand{4, fmt.Sprintf("%d dealloc_sl1 %d", u, id)})
					}
				case "hashjoin":
					if sole {
						cs = append(cs, cand{7, fmt.Sprintf("%d dealloc_hj %d", u, id)})
						cs = append(cs, cand{2, fmt.Sprintf("%d dealloc_sl %d", u, id)})
					}
				case "hostile-sl":
					cs = append(cs, cand{7, fmt.Sprintf("%d dealloc_sl %d", u, id)})
					if sole {
						cs = append(cs, cand{3, fmt.Sprintf("%d dealloc_sl1 %d", u, id)})
					}
				case "hostile-nw":
					cs = append(cs, cand{4, fmt.Sprintf("%d dealloc_sl %d", u, id)})
					cs = append(cs, cand{4, fmt.Sprintf("%d dealloc_hj %d", u, id)})
				}
			}
		}
		for _, id := range deadH {
			if s.h[id].late {
				cs = append(cs, cand{2, fmt.Sprintf("%d dealloc_sl2 %d", u, id)})
				break
			}
		}
		if len(liveH) > 0 {
			cs = append(cs, cand{4, fmt.Sprintf("%d flush %d", u, liveH[rng.Intn(len(liveH))])})
			cs = append(cs, cand{1, fmt.Sprintf("%d flushall", u)})
			cs = append(cs, cand{1, fmt.Sprintf("%d flushdirty", u)})
			if len(liveH) > target/2 {
				id := liveH[rng.Intn(len(liveH))]
				h := s.h[id]
				switch class {
				case "hashjoin":
					if len(h.pins) == 0 {
						cs = append(cs, cand{5, fmt.Sprintf("%d dealloc_nw %d", u, id)})
					}
				case "hostile-nw":
					cs = append(cs, cand{5, fmt.Sprintf("%d dealloc_nw %d", u, id)})
				}
			}
		}
		if canFrame && len(liveH) > 0 && len(holds) < maxHold && readErrors {
			id := liveH[rng.Intn(len(liveH))]
			if len(s.h[id].pins) == 0 {
				cs = append(cs, cand{4, fmt.Sprintf("%d fetchfail %d", u, id)})
			}
		}
		if withFetchDead && strings.HasPrefix(class, "hostile") && len(deadH) > 0 && canFrame && len(holds) < maxHold {
			id := deadH[rng.Intn(len(deadH))]
			if s.h[id].pins[u] == nil {
				cs = append(cs, cand{fetchDeadW, fmt.Sprintf("%d fetchdead %d", u, id)})
			}
		}
		if len(cs) == 0 {
			continue
		}
		tot := 0
		for _, x := range cs {
			tot += x.w
		}
		r := rng.Intn(tot)
		var op string
		for _, x := range cs {
			if r < x.w {
				op = x.op
				break
			}
			r -= x.w
		}
		if s.step(op) {
			c.Ops = append(c.Ops, op)
			if strings.Contains(op, " new ") {
				nextH++
			}
		}
	}
	return c
}

func c13Key(c *C13Case) string {
	b, _ := json.Marshal(c)
	h := sha1.Sum(b)
	return hex.EncodeToString(h[:10])
}

// ---------------------------------------------------------------------------------------------
// case entry points

func c13Run(env *core.Env, idx int) *core.CaseResult {
	c := c13Gen(env, idx)
	res := c13RunCase(env, c, true)
	if idx < 3 {
		smp := *c
		if len(smp.Ops) > 40 {
			smp.Ops = append(append([]string(nil), smp.Ops[:40]...), fmt.Sprintf("... (%d more)", len(c.Ops)-40))
		}
		res.Sample = map[string]any{"idx": idx, "tags": c13Tags(c), "case": smp}
	}
	return res
}

func c13Witness(env *core.Env, raw json.RawMessage) *core.CaseResult {
	var c C13Case
	if err := json.Unmarshal(raw, &c); err != nil {
		r := core.NewResult()
		r.Inconclusive = "bad witness: " + err.Error()
		return r
	}
	if c.Pool < 1 || c.Users < 1 {
		r := core.NewResult()
		r.Inconclusive = "bad witness: pool and users must be >= 1"
		return r
	}
	if c.Disk == "" {
		c.Disk = "file"
	}
	return c13RunCase(env, &c, false)
}

func c13RunCase(env *core.Env, c *C13Case, shrink bool) *core.CaseResult {
	res := core.NewResult()
	res.Key = c13Key(c)
	tags := c13Tags(c)
	res.Seen("pool_x_class", fmt.Sprintf("%d/%s/%s", c.Pool, c.Class, c.Disk))
	res.Add("cases_class_"+c.Class, 1)
	for _, t := range tags {
		res.Add("cases_tag_"+t, 1)
	}
	if len(tags) == 0 {
		res.Add("cases_untagged", 1)
	}
	strong := true
	for _, t := range tags {
		switch t {
		case "dealloc-nowait", "fetch-deallocated", "new-unpinned-unwritten", "concurrent-flush":
			strong = false
		}
	}
	if strong {
		res.Add("cases_without_any_defect_trigger_tag", 1)
	}
	if c.Mode == "go" {
		c13RunGo(env, c, res, tags)
		return res
	}
	v, s := c13Exec(env, c, res)
	res.Seen("peak_distinct_pinned_pages", strconv.Itoa(s.maxPins))
	res.Nontrivial = res.Stats["dirty_evicted_then_fetched"] > 0 || res.Stats["id_reused"] > 0
	if v != nil {
		wc, wv := c, v
		runs := 0
		if shrink {
			// full delta debugging for the first few failures of each kind in this process, afterwards only the
			// cut after the failing op (bounds the cost when a defect makes most cases fail)
			budget := 60000 // engine ops
			c13ShrunkMu.Lock()
			c13Shrunk[v.kind]++
			if c13Shrunk[v.kind] > 3 {
				budget = 0
			}
			c13ShrunkMu.Unlock()
			wc, wv, runs = c13Shrink(env, c, v, budget)
		}
		res.Add("shrink_runs", int64(runs))
		res.Violate(v.kind, tags, wc, "%s  [at op %d of %d: %q; witness shrunk to %d ops, there: %s]", v.detail, v.at, len(c.Ops), c13OpAt(c, v.at), len(wc.Ops), wv.detail)
	}
	return res
}

var (
	c13ShrunkMu sync.Mutex
	c13Shrunk   = map[string]int{}
)

func c13OpAt(c *C13Case, i int) string {
	if i >= 0 && i < len(c.Ops) {
		return c.Ops[i]
	}
	return "final phase (unpin all, fetch every live page, FlushAllPages, read data file)"
}

// ---------------------------------------------------------------------------------------------
// goroutine variant

type c13GPage struct {
	pid  int32
	mu   sync.RWMutex // harness-side content lock
	data [c13PageSize]byte
	ver  uint32
	pins int  // guarded by registry mutex
	dead bool // guarded by registry mutex
}

type c13Reg struct {
	mu    sync.Mutex
	live  []*c13GPage
	byPid map[int32]*c13GPage
}

func c13RunGo(env *core.Env, c *C13Case, res *core.CaseResult, tags []string) {
	res.Add("go_cases", 1)
	eng := c13NewEng(env, c)
	bpm := eng.bpm
	reg := &c13Reg{byPid: map[int32]*c13GPage{}}
	sem := make(chan struct{}, c.Pool)
	target := c.Pool + 2 + int(c.GoSeed%int64(c.Pool*2+3))
	var stop int32
	var vmu sync.Mutex
	var viol *c13Viol
	abort := make(chan struct{})
	violate := func(kind, format string, a ...any) {
		vmu.Lock()
		if viol == nil {
			viol = &c13Viol{kind: kind, detail: fmt.Sprintf(format, a...)}
			atomic.StoreInt32(&stop, 1)
			close(abort)
		}
		vmu.Unlock()
	}
	type counters struct{ ops, news, reads, writes, flushes, deallocs, reuse, compared, busy int64 }
	cnt := make([]counters, c.Users)
	var wg sync.WaitGroup
	for u := 0; u < c.Users; u++ {
		wg.Add(1)
		go func(u int) {
			defer wg.Done()
			defer func() {
				if p := recover(); p != nil {
					violate("panic", "user goroutine %d: engine panicked: %v", u, p)
				}
			}()
			rng := c13Prng(uint64(c.GoSeed) ^ uint64(u+1)*0xD1B54A32D192ED03)
			k := &cnt[u]
			pick := func(needUnpinned bool, markDead bool) *c13GPage {
				reg.mu.Lock()
				defer reg.mu.Unlock()
				if len(reg.live) == 0 {
					return nil
				}
				i := int(rng.next() % uint64(len(reg.live)))
				g := reg.live[i]
				if needUnpinned && g.pins > 0 {
					return nil
				}
				if markDead {
					g.dead = true
					reg.live[i] = reg.live[len(reg.live)-1]
					reg.live = reg.live[:len(reg.live)-1]
				}
				g.pins++
				return g
			}
			unpinModel := func(g *c13GPage) {
				reg.mu.Lock()
				g.pins--
				reg.mu.Unlock()
			}
			check := func(g *c13GPage, pg *page.Page, what string) bool { // caller holds g.mu (R or W)
				k.compared += c13PageSize
				if int32(pg.GetPageID()) != g.pid {
					violate("pinned-changed", "%s: page object of page %d says id %d", what, g.pid, pg.GetPageID())
					return false
				}
				if first, n := c13Diff(pg.Data()[:], g.data[:]); n > 0 {
					kind := "readback"
					if strings.HasPrefix(what, "re-check") {
						kind = "pinned-changed"
					}
					violate(kind, "%s: page %d differs from the model in %d bytes, first at offset %d; observed {%s}, expected {%s}", what, g.pid, n, first, c13Describe(pg.Data()[:]), c13Describe(g.data[:]))
					return false
				}
				return true
			}
			for i := 0; i < c.Steps && atomic.LoadInt32(&stop) == 0; i++ {
				k.ops++
				r := int(rng.next() % 100)
				reg.mu.Lock()
				nlive := len(reg.live)
				reg.mu.Unlock()
				switch {
				case r < 12 || nlive < 2:
					if nlive >= target {
						continue
					}
					select {
					case sem <- struct{}{}:
					default:
						k.busy++
						runtime.Gosched()
						continue
					}
					pg := bpm.NewPage()
					if pg == nil {
						violate("new-nil", "NewPage returned nil with at most %d pins outstanding", c.Pool)
						return
					}
					pid := int32(pg.GetPageID())
					g := &c13GPage{pid: pid, pins: 1}
					reg.mu.Lock()
					if o := reg.byPid[pid]; o != nil {
						if !o.dead || o.pins > 0 {
							reg.mu.Unlock()
							violate("newid-in-use", "NewPage returned page id %d which is in use (deallocated=%v, pins=%d)", pid, o.dead, o.pins)
							return
						}
						k.reuse++
					}
					reg.byPid[pid] = g
					reg.mu.Unlock()
					g.mu.Lock()
					g.ver = 1
					c13Full(&g.data, pid, g.ver, u, rng.next())
					copy(pg.Data()[:], g.data[:])
					g.mu.Unlock()
					bpm.UnpinPage(types.PageID(pid), true)
					reg.mu.Lock()
					g.pins--
					reg.live = append(reg.live, g)
					reg.mu.Unlock()
					<-sem
					k.news++
				case r < 55: // read, sometimes two pages at once
					select {
					case sem <- struct{}{}:
					default:
						k.busy++
						runtime.Gosched()
						continue
					}
					g := pick(false, false)
					if g == nil {
						<-sem
						continue
					}
					pg := bpm.FetchPage(types.PageID(g.pid))
					if pg == nil {
						violate("fetch-nil", "FetchPage(%d) of a live page returned nil", g.pid)
						return
					}
					g.mu.RLock()
					ok := check(g, pg, "FetchPage for reading")
					g.mu.RUnlock()
					if !ok {
						return
					}
					if rng.next()%3 == 0 {
						runtime.Gosched()
						g.mu.RLock()
						ok = check(g, pg, "re-check while pinned")
						g.mu.RUnlock()
						if !ok {
							return
						}
					}
					bpm.UnpinPage(types.PageID(g.pid), false)
					unpinModel(g)
					<-sem
					k.reads++
				case r < 88: // write
					select {
					case sem <- struct{}{}:
					default:
						k.busy++
						runtime.Gosched()
						continue
					}
					g := pick(false, false)
					if g == nil {
						<-sem
						continue
					}
					pg := bpm.FetchPage(types.PageID(g.pid))
					if pg == nil {
						violate("fetch-nil", "FetchPage(%d) of a live page returned nil", g.pid)
						return
					}
					g.mu.Lock()
					ok := check(g, pg, "FetchPage for writing")
					if ok {
						g.ver++
						c13Full(&g.data, g.pid, g.ver, u, rng.next())
						if rng.next()%2 == 0 {
							copy(pg.Data()[:], g.data[:])
						} else { // write in two halves with a yield in between (still under the content lock)
							copy(pg.Data()[:2048], g.data[:2048])
							runtime.Gosched()
							copy(pg.Data()[2048:], g.data[2048:])
						}
					}
					g.mu.Unlock()
					if !ok {
						return
					}
					bpm.UnpinPage(types.PageID(g.pid), true)
					unpinModel(g)
					<-sem
					k.writes++
				case r < 94 && c.Flush:
					reg.mu.Lock()
					var pid int32 = -1
					if len(reg.live) > 0 {
						pid = reg.live[int(rng.next()%uint64(len(reg.live)))].pid
					}
					reg.mu.Unlock()
					switch rng.next() % 4 {
					case 0:
						bpm.FlushAllPages()
					case 1:
						bpm.FlushAllDirtyPages()
					default:
						if pid >= 0 {
							bpm.FlushPage(types.PageID(pid))
						}
					}
					k.flushes++
				case r >= 94 && c.Dealloc: // skip-list style, sole user
					if nlive < target/2 {
						continue
					}
					select {
					case sem <- struct{}{}:
					default:
						k.busy++
						continue
					}
					g := pick(true, true)
					if g == nil {
						<-sem
						continue
					}
					pg := bpm.FetchPage(types.PageID(g.pid))
					if pg == nil {
						violate("fetch-nil", "FetchPage(%d) of a live page returned nil", g.pid)
						return
					}
					g.mu.RLock()
					ok := check(g, pg, "FetchPage before deallocation")
					g.mu.RUnlock()
					if !ok {
						return
					}
					pg.SetIsDeallocated(true)
					// the model pin is released BEFORE the engine pin: as soon as the engine pin is gone the frame may be
					// evicted and the id handed out again by another goroutine's NewPage
					unpinModel(g)
					bpm.UnpinPage(types.PageID(g.pid), true)
					bpm.DeallocatePage(types.PageID(g.pid), false)
					<-sem
					k.deallocs++
				default:
					runtime.Gosched()
				}
			}
		}(u)
	}
	done := make(chan struct{})
	go func() { wg.Wait(); close(done) }()
	select {
	case <-done:
	case <-abort:
		// do not wait for the others: after an engine panic the pool mutex may be held for ever
		select {
		case <-done:
		case <-time.After(2 * time.Second):
		}
	}
	for i := range cnt {
		res.Add("go_ops", cnt[i].ops)
		res.Add("go_new", cnt[i].news)
		res.Add("go_reads", cnt[i].reads)
		res.Add("go_writes", cnt[i].writes)
		res.Add("go_flushes", cnt[i].flushes)
		res.Add("go_deallocs", cnt[i].deallocs)
		res.Add("id_reused", cnt[i].reuse)
		res.Add("bytes_compared", cnt[i].compared)
		res.Add("go_ops_skipped_pool_busy", cnt[i].busy)
	}
	vmu.Lock()
	v := viol
	vmu.Unlock()
	if v == nil {
		// quiescent end: (d), every live page through the pool, data file
		v = c13GoFinal(eng, c, reg, res)
		eng.close()
	}
	res.Nontrivial = res.Stats["go_writes"] > int64(c.Pool) && res.Stats["go_reads"] > 0
	if v != nil {
		res.Violate(v.kind, tags, c, "goroutine variant (%d users, pool %d, %s): %s", c.Users, c.Pool, c.Disk, v.detail)
	}
}

func c13GoFinal(eng *c13Eng, c *C13Case, reg *c13Reg, res *core.CaseResult) (v *c13Viol) {
	defer func() {
		if p := recover(); p != nil {
			v = &c13Viol{kind: "panic", detail: fmt.Sprintf("final phase: engine panicked: %v", p)}
		}
	}()
	if !eng.mutexFree(true) {
		return &c13Viol{kind: "mutex-leak", detail: "all users finished but the pool mutex is still held"}
	}
	for f, pg := range eng.bpm.GetPages() {
		if pg != nil && pg.PinCount() != 0 {
			return &c13Viol{kind: "pincount", detail: fmt.Sprintf("all users unpinned everything but frame %d (page %d) has pin count %d", f, pg.GetPageID(), pg.PinCount())}
		}
	}
	if t := eng.readTable(); t != nil {
		res.Add("table_reflection_ok", 1)
		pages := eng.bpm.GetPages()
		used := map[int]bool{}
		for pid, f := range t {
			if f < 0 || f >= len(pages) || pages[f] == nil || int32(pages[f].GetPageID()) != pid || used[f] {
				return &c13Viol{kind: "frame-table", detail: fmt.Sprintf("page table entry %d -> frame %d is inconsistent with the frames", pid, f)}
			}
			used[f] = true
		}
	}
	for _, g := range reg.live {
		pg := eng.bpm.FetchPage(types.PageID(g.pid))
		if pg == nil {
			return &c13Viol{kind: "fetch-nil", detail: fmt.Sprintf("final FetchPage(%d) of a live page returned nil", g.pid)}
		}
		res.Add("bytes_compared", c13PageSize)
		res.Add("final_pages_fetched", 1)
		if first, n := c13Diff(pg.Data()[:], g.data[:]); n > 0 || int32(pg.GetPageID()) != g.pid {
			return &c13Viol{kind: "readback", detail: fmt.Sprintf("final FetchPage(%d): differs from the model in %d bytes, first at %d; observed {%s}, expected {%s}", g.pid, n, first, c13Describe(pg.Data()[:]), c13Describe(g.data[:]))}
		}
		eng.bpm.UnpinPage(types.PageID(g.pid), false)
	}
	eng.bpm.FlushAllPages()
	var whole []byte
	if eng.kind != "mem" {
		whole, _ = os.ReadFile(eng.path)
	}
	for _, g := range reg.live {
		got, ok := eng.diskPage(g.pid, whole)
		if !ok {
			got = make([]byte, c13PageSize)
		}
		res.Add("datafile_pages_compared", 1)
		res.Add("bytes_compared", c13PageSize)
		if first, n := c13Diff(got, g.data[:]); n > 0 {
			return &c13Viol{kind: "datafile", detail: fmt.Sprintf("data file after FlushAllPages: page %d differs from the model in %d bytes, first at %d; observed {%s}, expected {%s}", g.pid, n, first, c13Describe(got), c13Describe(g.data[:]))}
		}
	}
	return nil
}
