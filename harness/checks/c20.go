package checks

// C20 - recovery can be interrupted and repeated: nested fault enumeration over the restart's own I/O trace.

import (
	"fmt"
	"strings"

	"verifharness/internal/core"
	"verifharness/internal/crashlab"
	"verifharness/internal/rec"
	rm "verifharness/internal/refmodel"
)

func init() {
	core.Register(&core.Check{
		ID:    "C20",
		Level: "fault_enumeration",
		Rule: "case = one crash-laboratory history; crash images I are taken at crash points stratified by context (inside commit / open transactions / checkpoint / quiescent, with and without a torn log tail); the restart on I is run UNDER THE RECORDER, giving the trace R of the start-up's own page writes, log truncation and log writes; " +
			"for EVERY prefix j of R the image I+R[1..j] is restarted again and judged by the committed-state oracle of the ORIGINAL history and crash point (thorough: a second nesting level on a sample, torn variants of R_j's log writes). " +
			"Idempotence: I is recovered completely, closed without shutdown, and recovered again up to 3 more times: identical tables every time. " +
			"Non-trivial nested point = j lies strictly between the first and the last write of R and R contains a log truncation; distinct by (history, k, j)",
		Assumptions: []string{"crash model as C01 (durable in issue order, at most the last write torn); torn page writes are C01's listed finding and are not nested here"},
		NumCases: func(env *core.Env) int {
			if env.Thorough() {
				return 200
			}
			return 24
		},
		RunCase: c20Run,
	})
}

func c20Run(env *core.Env, idx int) *core.CaseResult {
	r := env.Rand(idx)
	res := core.NewResult()
	bias := "commit"
	if idx%2 == 1 {
		bias = "loser"
	}
	p := crashParams(r, env, bias)
	h, fatal := crashlab.Run(r, fmt.Sprintf("%s/c20h_%d", env.TmpDir, idx), p)
	if fatal != "" || h.LiveDiff != "" {
		res.Inconclusive = "live history unusable: " + clipStr(fatal+h.LiveDiff, 200)
		return res
	}
	hdesc := describeHistory(h)
	// candidate crash points by context
	byCtx := map[string][]int{}
	for k := h.SetupEnd + 1; k <= len(h.Events); k++ {
		if h.Events[k-1].Kind == rec.Marker {
			continue
		}
		c := crashContext(h, k)
		byCtx[c] = append(byCtx[c], k)
	}
	perCtx := 2
	maxJ := 60
	if env.Thorough() {
		perCtx = 6
		maxJ = 400
	}
	var ks []int
	for _, c := range []string{"committing", "committing+open", "open", "in-checkpoint", "quiescent"} {
		l := byCtx[c]
		for n := 0; n < perCtx && len(l) > 0; n++ {
			i := r.Intn(len(l))
			ks = append(ks, l[i])
			l = append(l[:i], l[i+1:]...)
		}
	}
	path := fmt.Sprintf("%s/c20img_%d", env.TmpDir, idx)
	hung := false
	for _, k := range ks {
		if hung {
			break
		}
		im := &rec.Image{}
		for i := 0; i < k; i++ {
			im.Apply(&h.Events[i])
		}
		ctx := crashContext(h, k)
		// optionally tear the log tail of I (a torn final log write before the first crash)
		torn := ""
		if r.Intn(3) == 0 && k < len(h.Events) && h.Events[k].Kind == rec.WriteLog && len(h.Events[k].Data) > 30 {
			cut := 1 + r.Intn(len(h.Events[k].Data)-1)
			im.ApplyTorn(&h.Events[k], cut)
			torn = fmt.Sprintf(" + next log write torn at %d", cut)
		}
		base := im.Clone()
		first := crashlab.RecoverRecorded(path, im.Clone(), p.MemKB, p.Tables)
		v1 := h.Judge(k, first)
		tables1 := first.Tables
		trace := first.Trace
		if first.Hung {
			hung = true
			res.RestartChild = true
		}
		first.Close(path)
		res.Add("first_level_recoveries", 1)
		res.Add("images_"+ctx, 1)
		if !v1.OK {
			// the first-level recovery is C01/C02's business; without a correct first level nothing can be nested
			res.Add("first_level_not_ok", 1)
			continue
		}
		nWrites := 0
		hasGC := false
		for _, e := range trace {
			if e.Kind != rec.Marker {
				nWrites++
			}
			if e.Kind == rec.GCLog {
				hasGC = true
			}
		}
		res.Add("restart_trace_events", int64(nWrites))
		if hasGC {
			res.Add("restart_traces_with_log_truncation", 1)
		}
		// nested: every prefix j of the restart's own trace
		step := 1
		if nWrites > maxJ {
			step = (nWrites + maxJ - 1) / maxJ
		}
		nested := base.Clone()
		applied := 0
		for j := 1; j <= len(trace) && !hung; j++ {
			e := &trace[j-1]
			if e.Kind == rec.Marker {
				continue
			}
			// torn variant of a log write of the restart
			if e.Kind == rec.WriteLog && len(e.Data) > 2 && (env.Thorough() || applied%4 == 0) {
				t := nested.Clone()
				t.ApplyTorn(e, 1+r.Intn(len(e.Data)-1))
				c20Judge(env, res, h, k, path, t, p, hdesc, idx, fmt.Sprintf("first crash after event %d (%s%s); second crash inside restart event %d (%s, torn)", k, ctx, torn, j, eventDesc(e)), &hung, []string{"ctx-" + ctx, "nested-torn-log"})
			}
			nested.Apply(e)
			applied++
			if applied%step != 0 && applied != nWrites {
				continue
			}
			ok := c20Judge(env, res, h, k, path, nested, p, hdesc, idx, fmt.Sprintf("first crash after event %d (%s%s); second crash after restart event %d of %d (%s)", k, ctx, torn, applied, nWrites, eventDesc(e)), &hung, []string{"ctx-" + ctx, "nested"})
			if applied > 1 && applied < nWrites && hasGC {
				res.Nontrivial = true
				res.Add("nontrivial_nested_points", 1)
			}
			// depth 3 on a sample
			if ok && env.Thorough() && applied%7 == 3 && !hung {
				second := crashlab.RecoverRecorded(path, nested.Clone(), p.MemKB, p.Tables)
				tr2 := second.Trace
				second.Close(path)
				third := nested.Clone()
				n2 := 0
				for i := range tr2 {
					if tr2[i].Kind == rec.Marker {
						continue
					}
					third.Apply(&tr2[i])
					n2++
					if n2%3 == 0 {
						c20Judge(env, res, h, k, path, third, p, hdesc, idx, fmt.Sprintf("first crash after event %d (%s); second after restart event %d; third after event %d of the second restart", k, ctx, applied, n2), &hung, []string{"ctx-" + ctx, "nested-depth3"})
						res.Add("depth3_points", 1)
					}
				}
			}
		}
		// idempotence: recover completely, close without shutdown, recover again
		if !hung {
			cur := base.Clone()
			prev := tables1
			for n := 0; n < 3 && !hung; n++ {
				rc := crashlab.RecoverRecorded(path, cur, p.MemKB, p.Tables)
				for i := range rc.Trace {
					cur.Apply(&rc.Trace[i])
				}
				if rc.Hung {
					hung = true
					res.RestartChild = true
				}
				same := rc.Failure == ""
				for _, t := range p.Tables {
					if rm.DiffMultiset(rc.Tables[t.Name], prev[t.Name], nil) != "" {
						same = false
					}
				}
				rc.Close(path)
				res.Add("repeated_recoveries", 1)
				if !same {
					res.Violate("not-idempotent", []string{"ctx-" + ctx, "repeat"}, map[string]any{"history": hdesc, "crash_after_event": k, "repetition": n + 2, "idx": idx, "seed": env.Seed},
						"recovery number %d of the image after event %d (%s) gives different tables than the first one (failure=%q)", n+2, k, ctx, rc.Failure)
					break
				}
			}
		}
	}
	res.Key = fmt.Sprintf("c20-%d", idx)
	if idx < 2 {
		res.Sample = map[string]any{"history": hdesc, "first_level_crash_points": ks}
	}
	return res
}

func c20Judge(env *core.Env, res *core.CaseResult, h *crashlab.History, k int, path string, im *rec.Image, p crashlab.Params, hdesc map[string]any, idx int, what string, hung *bool, tags []string) bool {
	rc := crashlab.Recover(path, im, p.MemKB, p.Tables, true)
	v := h.Judge(k, rc)
	if rc.Hung {
		*hung = true
		res.RestartChild = true
	}
	rc.Close(path)
	res.Add("nested_recoveries", 1)
	if v.OK {
		return true
	}
	kind := "nested-committed-lost"
	if rc.Hung {
		kind = "nested-restart-hang"
	} else if rc.Failure != "" {
		kind = "nested-restart-failed"
	} else if len(v.C01) == 0 {
		kind = "nested-loser-visible"
	}
	all := append(append([]string{}, v.C01...), v.C02...)
	res.Violate(kind, tags, map[string]any{"history": hdesc, "what": what, "idx": idx, "seed": env.Seed}, "%s: %s", what, strings.Join(clipList(all, 4), "; "))
	return false
}
