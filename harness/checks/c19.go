package checks

// C19 - concurrent use of the engine is free of data races on the data path: the Go race detector is the oracle.
// The concurrent workloads of C04(b), C05(b), C08, C12, C17 and the goroutine variant of C13 are run inside the -race binary with
// GORACE=halt_on_error=0 log_path=...; every report is parsed, fingerprinted by the innermost engine frames of its two
// accesses (function names, no line numbers) and classified as in scope (data path) or out of scope (shutdown flags).

import (
	"bufio"
	"fmt"
	"os"
	"path/filepath"
	"regexp"
	"sort"
	"strings"
	"sync"
	"sync/atomic"
	"time"

	"verifharness/internal/core"
	rm "verifharness/internal/refmodel"
	"verifharness/internal/sqlx"
)

var c19Workloads = []string{"C12", "C04b", "C05b", "C08c", "C17c", "C13g", "ddl", "logwrap"}

func c19Reps(env *core.Env) int {
	if env.Thorough() {
		return 20
	}
	return 3
}

func init() {
	core.Register(&core.Check{
		ID:       "C19",
		Level:    "exploration",
		NeedRace: true,
		Rule: "case = one repetition of one concurrent workload executed inside the race-detector build of the harness+engine: ExecuteSQL clients with forced checkpoints and statistics scans (C12), multi-statement goroutine transactions with aborts (C04b/C05b), " +
			"auto-commit DML with checkpoints in small pools = evictions (C08c), concurrent index inserters/deleters/scanners (C17c), the buffer pool driven directly by 2-8 user goroutines incl. flushes and deallocations (C13g) CREATE TABLE by three callers concurrent with DML (ddl) and statements that fill the log buffer several times next to short read-only statements (logwrap); quick 3, thorough 20 repetitions each, GOMAXPROCS 4 and 16. " +
			"Oracle: every 'WARNING: DATA RACE' block in the GORACE log is parsed; fingerprint = innermost frame inside github.com/ryogrid/SamehadaDB/lib of each of the two accesses (function names; line numbers dropped); " +
			"in scope when an access is in storage/, recovery/, container/, catalog/, execution/, materialization/, types/, concurrency/checkpoint_manager.go, concurrency/statistics_updater.go or common/; the request manager's / background loops' shutdown flags are out of scope (listed in the evidence only). " +
			"Non-trivial case = the workload executed statements concurrently (operations counter > 0); distinct by (workload, repetition). A run in which the detector saw nothing at all while a listed race finding is still open fails as vacuous",
		Assumptions: []string{"the race detector only observes the schedules that occur; reports vary from run to run, hence repetitions", "a race with harness frames only would be a broken check, not an engine defect"},
		NumCases:    func(env *core.Env) int { return len(c19Workloads) * c19Reps(env) },
		RunCase:     c19Run,
		Children:    func(env *core.Env) int { return 6 },
		CaseTimeout: 300 * time.Second,
		ChildEnv: func(env *core.Env, dir string) []string {
			return []string{"GORACE=halt_on_error=0 exitcode=0 history_size=3 log_path=" + filepath.Join(dir, "race")}
		},
		PostShard: c19PostShard,
		Extra: func(env *core.Env, agg *core.Aggregate) map[string]any {
			return map[string]any{"race_fingerprints_in_scope": agg.SetNames("race_in_scope"), "race_fingerprints_out_of_scope": agg.SetNames("race_out_of_scope")}
		},
	})
}

func c19Run(env *core.Env, idx int) *core.CaseResult {
	res := core.NewResult()
	w := c19Workloads[idx%len(c19Workloads)]
	rep := idx / len(c19Workloads)
	sub := &core.Env{ID: "C19-" + w, Tier: "quick", Seed: env.Seed*1000 + int64(rep), TmpDir: env.TmpDir, Race: true}
	var inner *core.CaseResult
	switch w {
	case "C12":
		inner = c12Run(sub, rep*4+rep%3) // linearizability and exactly-once variants
	case "C04b":
		inner = ilCaseB(sub, ilNumA(sub)+rep, "C04")
	case "C05b":
		inner = ilCaseB(sub, ilNumA(sub)+rep+1, "C05")
	case "C08c":
		inner = c08Run(sub, rep*4+3)
	case "C17c":
		if c := core.Lookup("C17"); c != nil && c17ConcurrentCase != nil {
			inner = c17ConcurrentCase(sub, rep)
		}
	case "C13g":
		// the buffer pool driven directly by 2-8 user goroutines (fetch / write under a per-page harness lock / unpin / flush / deallocate)
		for j := rep * 40; j < rep*40+400; j++ {
			if cl, _, _ := c13Params(j); cl == "go" || cl == "go-flush" {
				inner = c13Run(sub, j)
				break
			}
		}
	case "ddl":
		inner = c19DDL(sub, rep)
	case "logwrap":
		inner = c19LogWrap(sub, rep)
	}
	res.Add("workload_runs_"+w, 1)
	if inner != nil {
		for k, v := range inner.Stats {
			if strings.Contains(k, "operations") || k == "conc_ops" || k == "go_ops" || strings.Contains(k, "statements") || strings.Contains(k, "transactions") || strings.Contains(k, "clients") {
				res.Add(w+"_"+k, v)
				res.Nontrivial = true
			}
		}
		if len(inner.Violations) > 0 {
			res.Add("workload_runs_with_functional_violations", 1) // judged by the owning property's check, not here
		}
	}
	res.Key = fmt.Sprintf("c19-%s-%d", w, rep)
	if idx < 2 {
		res.Sample = map[string]any{"workload": w, "repetition": rep, "seed": sub.Seed}
	}
	return res
}

// c17ConcurrentCase is set by c17.go when that check provides a concurrent case usable under the race detector.
var c17ConcurrentCase func(env *core.Env, rep int) *core.CaseResult

var raceFrameRe = regexp.MustCompile(`^\s+(github\.com/ryogrid/(?:SamehadaDB/lib|bltree-go-for-embedding)[/.]\S+)\(`)
var raceAnyFrameRe = regexp.MustCompile(`^\s+(\S+)\(`)

type raceReport struct {
	accesses [2]string // innermost engine function of each access ("" if none)
	anyFrame [2]string
	files    [2]string
	src      [2]string // source text of the innermost engine line of each access
	text     string
}

// sourceLine returns the trimmed source text at "path:line" (empty if unreadable).
func sourceLine(loc string) string {
	i := strings.LastIndex(loc, ":")
	if i < 0 {
		return ""
	}
	var n int
	fmt.Sscanf(loc[i+1:], "%d", &n)
	b, err := os.ReadFile(loc[:i])
	if err != nil || n <= 0 {
		return ""
	}
	lines := strings.Split(string(b), "\n")
	if n > len(lines) {
		return ""
	}
	return strings.TrimSpace(lines[n-1])
}

func parseRaceLog(path string) []raceReport {
	f, err := os.Open(path)
	if err != nil {
		return nil
	}
	defer f.Close()
	var out []raceReport
	sc := bufio.NewScanner(f)
	sc.Buffer(make([]byte, 1<<20), 1<<26)
	var cur *raceReport
	section := -1
	var lines []string
	flush := func() {
		if cur != nil {
			cur.text = strings.Join(lines, "\n")
			out = append(out, *cur)
		}
		cur, section, lines = nil, -1, nil
	}
	prevFunc := ""
	for sc.Scan() {
		line := sc.Text()
		if strings.HasPrefix(line, "WARNING: DATA RACE") {
			flush()
			cur = &raceReport{}
			continue
		}
		if cur == nil {
			continue
		}
		if strings.HasPrefix(line, "==================") {
			flush()
			continue
		}
		if len(lines) < 60 {
			lines = append(lines, line)
		}
		switch {
		case strings.HasPrefix(line, "Read at ") || strings.HasPrefix(line, "Write at ") || strings.HasPrefix(line, "Previous read at ") || strings.HasPrefix(line, "Previous write at ") || strings.HasPrefix(line, "Atomic") || strings.HasPrefix(line, "Previous atomic"):
			section++
			if section > 1 {
				section = 2
			}
		case strings.HasPrefix(line, "Goroutine ") || strings.HasPrefix(line, "Location is") || strings.HasPrefix(line, "Mutex "):
			section = 2
		default:
			if section == 0 || section == 1 {
				if m := raceFrameRe.FindStringSubmatch(line); m != nil {
					if cur.accesses[section] == "" {
						cur.accesses[section] = strings.TrimPrefix(strings.Replace(m[1], "github.com/ryogrid/bltree-go-for-embedding.", "bltree.", 1), "github.com/ryogrid/SamehadaDB/lib/")
						prevFunc = "engine"
					}
				} else if m := raceAnyFrameRe.FindStringSubmatch(line); m != nil {
					if cur.anyFrame[section] == "" {
						cur.anyFrame[section] = m[1]
					}
					prevFunc = ""
				} else if prevFunc == "engine" && cur.files[section] == "" && (strings.Contains(line, "/lib/") || strings.Contains(line, "bltree-go-for-embedding")) {
					fl := strings.Fields(strings.TrimSpace(line))[0]
					cur.src[section] = sourceLine(fl)
					if i := strings.Index(fl, "/lib/"); i >= 0 {
						fl = fl[i+5:]
					}
					if i := strings.LastIndex(fl, ":"); i > 0 {
						fl = fl[:i]
					}
					cur.files[section] = fl
					prevFunc = ""
				}
			}
		}
	}
	flush()
	return out
}

// identifiers that are not storage-engine memory: shutdown flags of the request manager / background loops and two global debug flags
var c19OutOfScope = []string{"isExecutionActive", "isCheckpointActive", "isUpdaterActive", "common.NewRIDAtNormal", "common.NewRIDAtRollback"}

func c19InScope(r *raceReport) bool {
	// out of scope only if BOTH accesses are on lines that name one of the listed flags
	n := 0
	for _, src := range r.src {
		for _, o := range c19OutOfScope {
			if strings.Contains(src, o) {
				n++
				break
			}
		}
	}
	if n == 2 {
		return false
	}
	for i, a := range r.accesses {
		if a == "" {
			continue
		}
		fl := r.files[i]
		for _, p := range []string{"bltree.", "storage/", "recovery/", "container/", "catalog/", "execution/", "materialization/", "types/", "common/", "concurrency/checkpoint_manager", "concurrency/statistics_updater", "planner/", "samehada/samehada_util"} {
			if strings.HasPrefix(a, p) || strings.HasPrefix(fl, p) {
				return true
			}
		}
	}
	return false
}

func c19PostShard(env *core.Env, dir string, agg *core.Aggregate) {
	files, _ := filepath.Glob(filepath.Join(dir, "race.*"))
	seen := map[string]int{}
	example := map[string]string{}
	srcOf := map[string][2]string{}
	scope := map[string]bool{}
	total := 0
	for _, f := range files {
		for _, rp := range parseRaceLog(f) {
			total++
			a := []string{rp.accesses[0], rp.accesses[1]}
			for i := range a {
				if a[i] == "" {
					a[i] = "(no engine frame: " + rp.anyFrame[i] + ")"
				}
			}
			sort.Strings(a)
			fp := "race:" + a[0] + "~" + a[1]
			seen[fp]++
			if example[fp] == "" {
				example[fp] = rp.text
				srcOf[fp] = rp.src
			}
			r := rp
			scope[fp] = c19InScope(&r)
		}
		os.Remove(f)
	}
	res := core.NewResult()
	res.Add("race_reports_parsed", int64(total))
	var keys []string
	for k := range seen {
		keys = append(keys, k)
	}
	sort.Strings(keys)
	for _, fp := range keys {
		if scope[fp] {
			res.Seen("race_in_scope", fmt.Sprintf("%s (x%d)", fp, seen[fp]))
			onlyHarness := strings.Contains(fp, "(no engine frame") && strings.Count(fp, "(no engine frame") == 2
			if onlyHarness {
				continue
			}
			txt := "access 1 at: " + srcOf[fp][0] + "\naccess 2 at: " + srcOf[fp][1] + "\n" + example[fp]
			if len(txt) > 2500 {
				txt = txt[:2500]
			}
			res.Violations = append(res.Violations, core.Violation{Kind: "data-race", Tags: []string{fp}, Detail: fmt.Sprintf("%s reported %d times in this shard", fp, seen[fp]), Case: map[string]any{"fingerprint": fp, "report": strings.Split(txt, "\n"), "seed": env.Seed}})
		} else {
			res.Seen("race_out_of_scope", fmt.Sprintf("%s (x%d)", fp, seen[fp]))
		}
	}
	if total > 0 || len(files) > 0 {
		agg.AddObservation(res)
	}
}

// c19DDL: CREATE TABLE statements concurrent with DML on other tables.
func c19DDL(env *core.Env, rep int) *core.CaseResult {
	res := core.NewResult()
	r := env.Rand(rep)
	db := sqlx.Open(fmt.Sprintf("%s/c19ddl_%d", env.TmpDir, rep), []int{512, 1024}[r.Intn(2)], sqlx.Options{})
	db.CreateTableSQL("base", ilCols)
	done := make(chan struct{})
	// three callers create tables at the same time (next to the DML callers below)
	var ddl sync.WaitGroup
	for d := 0; d < 3; d++ {
		ddl.Add(1)
		go func(d int) {
			defer ddl.Done()
			defer func() { recover() }()
			for i := 0; i < 4; i++ {
				db.S.ExecuteSQL(fmt.Sprintf("CREATE TABLE extra%dx%d(id INT, k INT, v VARCHAR(100));", d, i))
				db.S.ExecuteSQL(fmt.Sprintf("INSERT INTO extra%dx%d(id, k, v) VALUES (1, 1, 'x');", d, i))
			}
		}(d)
	}
	go func() { ddl.Wait(); close(done) }()
	var n atomic.Int64
	var wg sync.WaitGroup
	for c := 0; c < 4; c++ {
		wg.Add(1)
		go func(c int) {
			defer wg.Done()
			defer func() { recover() }()
			for i := 0; i < 15; i++ {
				db.S.ExecuteSQL(fmt.Sprintf("INSERT INTO base(id, k, v) VALUES (%d, %d, 'v');", c*100+i, i))
				db.S.ExecuteSQL(fmt.Sprintf("SELECT id FROM base WHERE k = %d;", i))
				n.Add(2)
			}
		}(c)
	}
	wg.Wait()
	<-done
	res.Add("statements", n.Load())
	guarded(func() { db.S.ShutdownForTescase() })
	return res
}

// c19LogWrap: one caller's statements change every one of 400 rows of ~1.5 KB (about 1.2 MB of log per statement: the log buffer of
// 516 KB fills and is swapped inside AppendLogRecord several times) while other callers run short read-only statements, whose
// BEGIN / COMMIT records are appended at the same time.
func c19LogWrap(env *core.Env, rep int) *core.CaseResult {
	res := core.NewResult()
	r := env.Rand(rep)
	db := sqlx.Open(fmt.Sprintf("%s/c19lw_%d", env.TmpDir, rep), 8192, sqlx.Options{})
	db.CreateTableAPI("big", ilCols, []string{"skiplist", "", ""}) // (the wide column carries no index: long indexed strings are a listed C06 finding)
	db.CreateTableSQL("small", ilCols)
	for i := 0; i < 400; i += 8 {
		var rows []rm.Row
		for j := i; j < i+8; j++ {
			rows = append(rows, rm.Row{rm.Int(int32(j)), rm.Int(int32(j % 7)), rm.Str(fmt.Sprintf("w%d.", j) + strings.Repeat(string(rune('a'+r.Intn(26))), 1400+r.Intn(200)))})
		}
		sql, _ := sqlx.InsertSQL("big", ilCols, rows)
		db.S.ExecuteSQL(sql)
	}
	for i := 0; i < 10; i++ {
		db.S.ExecuteSQL(fmt.Sprintf("INSERT INTO small(id, k, v) VALUES (%d, %d, 's');", i, i))
	}
	var n atomic.Int64
	var stop atomic.Bool
	var wg sync.WaitGroup
	for c := 0; c < 5; c++ {
		wg.Add(1)
		go func(c int) {
			defer wg.Done()
			defer func() { recover() }()
			for i := 0; !stop.Load() && i < 20000; i++ {
				db.S.ExecuteSQL(fmt.Sprintf("SELECT id FROM small WHERE id = %d;", (c+i)%10))
				n.Add(1)
			}
		}(c)
	}
	func() {
		defer func() { recover() }()
		for i := 0; i < 4; i++ {
			db.S.ExecuteSQL(fmt.Sprintf("UPDATE big SET k = %d WHERE id >= 0;", 100+i))
			n.Add(1)
		}
	}()
	stop.Store(true)
	wg.Wait()
	res.Add("statements", n.Load())
	guarded(func() { db.S.ShutdownForTescase() })
	return res
}
