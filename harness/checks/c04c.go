package checks

// Part (c) of C04: multi-row reads racing with COMMITTED relocating updates (sub-statement interleavings).
//
// A table of 40-120 rows whose set of ids never changes (no inserts, deletes or key changes); writer goroutines change
// the non-indexed VARCHAR column of single rows to a unique token plus padding of very different lengths (in place /
// growing beyond the page / shrinking = the row moves to another slot or page, the index entries are re-pointed), in
// transactions of 1-3 statements ended by commit or abort; reader goroutines run range reads over the id index, reads
// over the k index and full scans, each in a transaction of its own. Every call is stamped at the client boundary from
// one atomic counter. A read may abort (no-wait locking). A read that COMPLETES must
//   (1) return every id of its range exactly once  (ids are never removed: a row that is missing or doubled was lost or
//       seen twice while another transaction moved it),
//   (2) return for every row a value that is the final write of a transaction whose Commit had been called before the
//       read returned (or the initial value) - never a value of an aborted / still open transaction or an intermediate one,
//   (3) not return a value that was overwritten by a transaction that committed before the read was invoked (stale),
//       where "overwritten" is decided by real time only (the later writer began after the earlier one's commit returned).

import (
	"fmt"
	"math/rand"
	"runtime"
	"sort"
	"strings"
	"sync"
	"sync/atomic"

	"verifharness/internal/core"
	rm "verifharness/internal/refmodel"
	"verifharness/internal/sqlx"
)

func ilNumC(env *core.Env) int {
	if env.Thorough() {
		return 300
	}
	return 24
}

type c4cWrite struct {
	row int32
	tok string
}

type c4cTxn struct {
	worker, n             int
	begin                 int64
	commitInv, commitResp int64
	committed             bool
	writes                []c4cWrite // successful statements in order
	relocating            bool
}

type c4cRead struct {
	worker     int
	sql, shape string
	want       []int32
	inv, resp  int64
	rows       []rm.Row
	aborted    bool
}

func ilCaseC(env *core.Env, idx int) *core.CaseResult {
	r := env.Rand(idx)
	res := core.NewResult()
	nRows := 40 + r.Intn(81)
	writers := 2 + r.Intn(3)
	readers := 2 + r.Intn(3)
	ops := 40
	if env.Thorough() {
		ops = 120
	}
	procs := []int{4, 16}[r.Intn(2)]
	memKB := []int{512, 1024, 4096}[r.Intn(3)]
	idxID := []string{"skiplist", "uniq", "btree"}[r.Intn(3)]
	old := runtime.GOMAXPROCS(procs)
	defer runtime.GOMAXPROCS(old)
	desc := map[string]any{"seed": env.Seed, "idx": idx, "rows": nRows, "writers": writers, "readers": readers, "ops_per_client": ops, "gomaxprocs": procs, "memKB": memKB, "index_on_id": idxID}
	tags := []string{"concurrent-relocating-updates", "index-" + idxID}
	db := sqlx.Open(fmt.Sprintf("%s/c4c_%d", env.TmpDir, idx), memKB, sqlx.Options{})
	cols := []rm.Col{{Name: "id", K: rm.KInt}, {Name: "k", K: rm.KInt}, {Name: "v", K: rm.KStr}}
	var fatal string
	if msg, p := guarded(func() { db.CreateTableAPI("t", cols, []string{idxID, "skiplist", ""}) }); p {
		res.Inconclusive = "create table panicked: " + clipStr(msg, 200)
		return res
	}
	pads := []int{8, 8, 250, 700, 1500}
	var rows []rm.Row
	for id := 0; id < nRows; id++ {
		rows = append(rows, rm.Row{rm.Int(int32(id)), rm.Int(int32(id % 5)), rm.Str("init|" + strings.Repeat("i", pads[r.Intn(len(pads))]))})
	}
	for i := 0; i < len(rows); i += 10 {
		j := i + 10
		if j > len(rows) {
			j = len(rows)
		}
		txn := db.Begin()
		rr := db.InsertPlan(txn, "t", rows[i:j])
		if rr.Aborted || rr.Err != nil {
			res.Inconclusive = "preload failed"
			return res
		}
		db.Commit(txn)
	}
	var clock atomic.Int64
	var mu sync.Mutex
	var txns []*c4cTxn
	var reads []*c4cRead
	var wg sync.WaitGroup
	fail := func(msg string) {
		mu.Lock()
		if fatal == "" {
			fatal = msg
		}
		mu.Unlock()
	}
	for w := 0; w < writers; w++ {
		wg.Add(1)
		lr := rand.New(rand.NewSource(r.Int63()))
		go func(w int) {
			defer wg.Done()
			defer func() {
				if x := recover(); x != nil {
					fail(fmt.Sprintf("writer %d: %v | %s", w, x, engineFrames(stackBytes())))
				}
			}()
			for n := 0; n < ops; n++ {
				t := &c4cTxn{worker: w, n: n}
				t.begin = clock.Add(1)
				txn := db.Begin()
				nst := 1 + lr.Intn(3)
				dead := false
				for s := 0; s < nst; s++ {
					row := int32(lr.Intn(nRows))
					tok := fmt.Sprintf("w%dn%ds%d", w, n, s)
					pad := pads[lr.Intn(len(pads))]
					if pad > 8 {
						t.relocating = true
					}
					sql := fmt.Sprintf("UPDATE t SET v = '%s|%s' WHERE id = %d;", tok, strings.Repeat("p", pad), row)
					rr := db.Exec(txn, sql)
					if rr.Err != nil {
						fail("writer statement error: " + rr.Err.Error())
						db.Abort(txn)
						return
					}
					if rr.Aborted {
						dead = true
						break
					}
					t.writes = append(t.writes, c4cWrite{row, tok})
				}
				if dead || lr.Intn(5) == 0 {
					db.Abort(txn)
				} else {
					t.commitInv = clock.Add(1)
					db.Commit(txn)
					t.commitResp = clock.Add(1)
					t.committed = true
				}
				mu.Lock()
				txns = append(txns, t)
				mu.Unlock()
			}
		}(w)
	}
	for rd := 0; rd < readers; rd++ {
		wg.Add(1)
		lr := rand.New(rand.NewSource(r.Int63()))
		go func(rd int) {
			defer wg.Done()
			defer func() {
				if x := recover(); x != nil {
					fail(fmt.Sprintf("reader %d: %v | %s", rd, x, engineFrames(stackBytes())))
				}
			}()
			for n := 0; n < ops; n++ {
				q := &c4cRead{worker: rd}
				switch lr.Intn(4) {
				case 0, 1:
					a := lr.Intn(nRows)
					b := a + lr.Intn(nRows-a)
					q.sql = fmt.Sprintf("SELECT id, v FROM t WHERE id >= %d AND id <= %d;", a, b)
					for id := a; id <= b; id++ {
						q.want = append(q.want, int32(id))
					}
				case 2:
					g := lr.Intn(5)
					q.sql = fmt.Sprintf("SELECT id, v FROM t WHERE k = %d;", g)
					for id := g; id < nRows; id += 5 {
						q.want = append(q.want, int32(id))
					}
				default:
					q.sql = "SELECT id, v FROM t WHERE id >= 0 OR k = 99;"
					for id := 0; id < nRows; id++ {
						q.want = append(q.want, int32(id))
					}
				}
				txn := db.Begin()
				q.inv = clock.Add(1)
				rr := db.Exec(txn, q.sql)
				q.resp = clock.Add(1)
				if rr.Err != nil {
					fail("reader statement error: " + rr.Err.Error())
					db.Abort(txn)
					return
				}
				q.shape = rr.Shape
				if rr.Aborted {
					q.aborted = true
					db.Abort(txn)
				} else {
					q.rows = rr.Rows
					db.Commit(txn)
				}
				mu.Lock()
				reads = append(reads, q)
				mu.Unlock()
			}
		}(rd)
	}
	wg.Wait()
	res.Add("part_c_histories", 1)
	if fatal != "" {
		res.Violate("panic", tags, desc, "concurrent read / relocating-update workload failed: %s", clipStr(fatal, 500))
		return res
	}
	// index the writes
	type wref struct {
		t     *c4cTxn
		final bool
	}
	owner := map[string]wref{}
	byRow := map[int32][]*c4cTxn{}
	for _, t := range txns {
		last := map[int32]int{}
		for i, w := range t.writes {
			last[w.row] = i
		}
		for i, w := range t.writes {
			owner[w.tok] = wref{t, last[w.row] == i}
		}
		if t.committed {
			res.Add("part_c_committed_transactions", 1)
			if t.relocating {
				res.Add("part_c_committed_transactions_with_size_changing_updates", 1)
			}
			for row := range last {
				byRow[row] = append(byRow[row], t)
			}
		} else {
			res.Add("part_c_aborted_transactions", 1)
		}
	}
	overl := 0
	for _, q := range reads {
		res.Add("part_c_reads", 1)
		if q.aborted {
			res.Add("reads_aborted", 1)
			continue
		}
		res.Add("reads_completed", 1)
		res.Seen("part_c_read_plans", q.shape)
		qtags := append(append([]string{}, tags...), "plan-"+strings.NewReplacer("(", "-", ")", "").Replace(q.shape))
		d := map[string]any{"case": desc, "read": q.sql, "plan": q.shape, "invoked": q.inv, "returned": q.resp}
		got := map[int32][]string{}
		for _, row := range q.rows {
			if len(row) != 2 || row[0].K != rm.KInt {
				res.Violate("read-malformed", qtags, d, "%s returned a malformed row %v", q.sql, row)
				continue
			}
			got[row[0].I] = append(got[row[0].I], row[1].S)
		}
		var missing, doubled []int
		for _, id := range q.want {
			switch len(got[id]) {
			case 0:
				missing = append(missing, int(id))
			case 1:
			default:
				doubled = append(doubled, int(id))
			}
		}
		// committed size-changing writers overlapping the read (for the explanation and non-triviality)
		concurrent := func(id int32) []string {
			var out []string
			for _, t := range byRow[id] {
				if t.commitResp > q.inv && t.begin < q.resp {
					out = append(out, fmt.Sprintf("w%dn%d[begin %d, commit %d-%d]", t.worker, t.n, t.begin, t.commitInv, t.commitResp))
				}
			}
			return out
		}
		for _, id := range q.want {
			if len(concurrent(id)) > 0 {
				overl++
				break
			}
		}
		if len(missing) > 0 {
			sort.Ints(missing)
			res.Violate("read-missing-row", qtags, d, "%s [plan %s, invoked %d, returned %d] completed without row(s) %v, which exist at all times (their ids are never removed); transactions that moved/changed the first of them around that time: %v",
				q.sql, q.shape, q.inv, q.resp, missing, concurrent(int32(missing[0])))
		}
		if len(doubled) > 0 {
			res.Violate("read-duplicate-row", qtags, d, "%s [plan %s] returned row(s) %v more than once: %v", q.sql, q.shape, doubled, got[int32(doubled[0])])
		}
		if len(got) > len(q.want) {
			res.Violate("read-extra-row", qtags, d, "%s [plan %s] returned %d distinct ids, its range holds %d", q.sql, q.shape, len(got), len(q.want))
		}
		for _, id := range q.want {
			for _, v := range got[id] {
				tok := v
				if i := strings.Index(v, "|"); i >= 0 {
					tok = v[:i]
				}
				var wt *c4cTxn
				if tok != "init" {
					ref, ok := owner[tok]
					if !ok {
						res.Violate("read-unknown-value", qtags, d, "%s returned for row %d a value no transaction wrote there: %q", q.sql, id, clipStr(v, 60))
						continue
					}
					wt = ref.t
					if !wt.committed && wt.commitInv == 0 {
						res.Violate("dirty-read", qtags, d, "%s [plan %s, returned %d] returned for row %d the value %s of transaction w%dn%d, which never called Commit (aborted)", q.sql, q.shape, q.resp, id, tok, wt.worker, wt.n)
						continue
					}
					if wt.commitInv > q.resp {
						res.Violate("dirty-read", qtags, d, "%s [plan %s, returned %d] returned for row %d the value %s of transaction w%dn%d, whose Commit was called only at %d", q.sql, q.shape, q.resp, id, tok, wt.worker, wt.n, wt.commitInv)
						continue
					}
					if !ref.final {
						res.Violate("intermediate-value-read", qtags, d, "%s returned for row %d the value %s, which transaction w%dn%d overwrote itself before committing", q.sql, id, tok, wt.worker, wt.n)
						continue
					}
				}
				// stale: a transaction that began after wt's commit returned (or any, for the initial value) committed before the read was invoked
				for _, t2 := range byRow[id] {
					if t2 == wt || t2.commitResp >= q.inv {
						continue
					}
					if wt == nil || wt.commitResp < t2.begin {
						res.Violate("stale-read", qtags, d, "%s [plan %s, invoked %d] returned for row %d the value %s although transaction w%dn%d overwrote it and its commit returned at %d", q.sql, q.shape, q.inv, id, tok, t2.worker, t2.n, t2.commitResp)
						break
					}
				}
			}
		}
	}
	res.Add("part_c_reads_overlapping_a_committed_writer_of_their_range", int64(overl))
	if overl > 0 {
		res.Nontrivial = true
	}
	guarded(func() { db.S.ShutdownForTescase() })
	res.Key = fmt.Sprintf("C04c-%d", idx)
	return res
}

func stackBytes() []byte {
	b := make([]byte, 16<<10)
	return b[:runtime.Stack(b, false)]
}
