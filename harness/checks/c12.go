package checks

// C12 - concurrent SQL calls through SamehadaDB.ExecuteSQL are answered once, atomically and in a serial order.

import (
	"os"
	"fmt"
	"math/rand"
	"runtime"
	"sort"
	"strings"
	"sync"
	"sync/atomic"
	"time"

	"github.com/anishathalye/porcupine"

	"verifharness/internal/core"
	rm "verifharness/internal/refmodel"
	"verifharness/internal/sqlx"
)

func init() {
	core.Register(&core.Check{
		ID:    "C12",
		Level: "exploration",
		Rule: "case = one concurrent history: 2-32 client goroutines call SamehadaDB.ExecuteSQL only (the engine's request manager retries internally aborted statements), background checkpoint/statistics activity forced from extra goroutines, GOMAXPROCS in {2,4,16}. " +
			"Linearizability workload: 4 banks (tables) of 12 rows (id, g1 = id%3, g2 = id%4, val); operations = group reads (SELECT id, val WHERE g1 = x / g2 = x / id = x) and multi-row writes (UPDATE .. SET val = <unique token> WHERE g1 = x / g2 = x), tokens of exactly the initial value's length (every update in place) or growing tokens (relocation); " +
			"oracle 1 = porcupine against a per-bank model [12]string with atomic group writes (timeout = inconclusive); oracle 2 = every read returns exactly the ids of its group, each once, DML returns (nil, nil). " +
			"Exactly-once workload: INSERT of unique ids and DELETE by id from many clients; at quiescence every acknowledged insert that was not deleted is present exactly once and every acknowledged delete is absent. " +
			"Oracle 4 (no call blocks forever, restated): when a call has not returned 20 s after all other clients finished, two goroutine dumps 2 s apart must differ or show a running goroutine, otherwise it is a deadlock. " +
			"Non-trivial history = >= 10 pairs of overlapping operations on intersecting row groups; distinct by (case)",
		Assumptions: []string{"call/return stamps come from one atomic counter at the client boundary", "a porcupine timeout is inconclusive"},
		NumCases: func(env *core.Env) int {
			if env.Thorough() {
				return 1500
			}
			return 64
		},
		RunCase:     c12Run,
		CaseTimeout: 150 * time.Second,
		Children:    func(env *core.Env) int { return 8 },
	})
}

type c12In struct {
	Bank  int
	Write bool
	Grp   string // g1 | g2 | id
	X     int
	Tok   string
}

func c12Members(grp string, x int) []int {
	var out []int
	for id := 0; id < 12; id++ {
		switch grp {
		case "g1":
			if id%3 == x {
				out = append(out, id)
			}
		case "g2":
			if id%4 == x {
				out = append(out, id)
			}
		default:
			if id == x {
				out = append(out, id)
			}
		}
	}
	return out
}

var c12Model = porcupine.Model{
	Partition: func(history []porcupine.Operation) [][]porcupine.Operation {
		m := map[int][]porcupine.Operation{}
		for _, op := range history {
			b := op.Input.(c12In).Bank
			m[b] = append(m[b], op)
		}
		var keys []int
		for k := range m {
			keys = append(keys, k)
		}
		sort.Ints(keys)
		var out [][]porcupine.Operation
		for _, k := range keys {
			out = append(out, m[k])
		}
		return out
	},
	Init: func() interface{} {
		var s [12]string
		for i := range s {
			s[i] = "init0000"
		}
		return s
	},
	Step: func(state, input, output interface{}) (bool, interface{}) {
		s := state.([12]string)
		in := input.(c12In)
		if in.Write {
			for _, id := range c12Members(in.Grp, in.X) {
				s[id] = in.Tok
			}
			return true, s
		}
		var parts []string
		for _, id := range c12Members(in.Grp, in.X) {
			parts = append(parts, fmt.Sprintf("%d=%s", id, s[id]))
		}
		return strings.Join(parts, ";") == output.(string), s
	},
	Equal: func(a, b interface{}) bool { return a.([12]string) == b.([12]string) },
	DescribeOperation: func(input, output interface{}) string {
		in := input.(c12In)
		if in.Write {
			return fmt.Sprintf("bank%d write %s=%d <- %s", in.Bank, in.Grp, in.X, in.Tok)
		}
		return fmt.Sprintf("bank%d read %s=%d -> %v", in.Bank, in.Grp, in.X, output)
	},
}

func c12Run(env *core.Env, idx int) *core.CaseResult {
	if idx%16 == 13 {
		return c12Stampede(env, idx)
	}
	r := env.Rand(idx)
	res := core.NewResult()
	procs := []int{2, 4, 16}[r.Intn(3)]
	if idx%8 == 5 {
		procs = 16 // bursts: as many callers as possible really run at once
	}
	old := runtime.GOMAXPROCS(procs)
	defer runtime.GOMAXPROCS(old)
	exactlyOnce := idx%4 == 3
	clients := []int{2, 4, 8, 8, 16, 32}[r.Intn(6)]
	growing := !exactlyOnce && r.Intn(3) == 0
	opsPer := 80 / clients
	if opsPer < 4 {
		opsPer = 4
	}
	if env.Thorough() {
		opsPer *= 2
	}
	// every eighth history is a burst: 150-450 callers enter ExecuteSQL at almost the same time with two statements each on
	// one bank (many internal aborts and retries while the request queue is full). Judged by the direct rules only (every
	// call returns once, with the rows of its own statement; no call blocks forever), not by the linearizability search.
	burst := idx%8 == 5
	if burst {
		clients = 300 + r.Intn(301)
		opsPer = 6 // six rounds; in each round all callers are released together
		growing = false
	}
	memKB := []int{1024, 4096}[r.Intn(2)]
	db := sqlx.Open(fmt.Sprintf("%s/c12_%d", env.TmpDir, idx), memKB, sqlx.Options{})
	desc := map[string]any{"seed": env.Seed, "idx": idx, "clients": clients, "ops_per_client": opsPer, "gomaxprocs": procs, "growing_tokens": growing, "exactly_once_workload": exactlyOnce, "memKB": memKB}
	tags := []string{"equal-length-tokens"}
	if growing {
		tags = []string{"growing-tokens"}
	}
	if exactlyOnce {
		tags = []string{"insert-delete-workload"}
	}
	if burst {
		tags = append(tags, "burst-of-callers")
		res.Add("burst_histories", 1)
	}
	cols := []rm.Col{{Name: "id", K: rm.KInt}, {Name: "g1", K: rm.KInt}, {Name: "g2", K: rm.KInt}, {Name: "val", K: rm.KStr}}
	banks := 4
	if exactlyOnce || burst || (growing && r.Intn(2) == 0) {
		banks = 1 // all clients on the same 12 rows: maximal contention (relocations + aborts + internal retries)
	}
	if growing {
		opsPer = opsPer * 3 / 2
	}
	desc["banks"] = banks
	for b := 0; b < banks; b++ {
		name := fmt.Sprintf("acct%d", b)
		if err := db.CreateTableSQL(name, cols); err != nil {
			res.Inconclusive = "create table failed"
			return res
		}
		var rows []rm.Row
		for id := 0; id < 12; id++ {
			rows = append(rows, rm.Row{rm.Int(int32(id)), rm.Int(int32(id % 3)), rm.Int(int32(id % 4)), rm.Str("init0000")})
		}
		txn := db.Begin()
		db.InsertPlan(txn, name, rows)
		db.Commit(txn)
	}
	var clock atomic.Int64
	var mu sync.Mutex
	var ops []porcupine.Operation
	var failure string
	var wg sync.WaitGroup
	var finished atomic.Int32
	var refused atomic.Int64
	var scanWrites atomic.Int64
	refusing := idx%4 == 1 && !burst
	var created, ddlDone atomic.Int64
	ddl := idx%4 == 2 && !burst
	if ddl {
		tags = append(tags, "create-table-among-callers")
	}
	if refusing {
		tags = append(tags, "refused-statements-among-callers")
	}
	seeds := make([]int64, clients)
	for i := range seeds {
		seeds[i] = r.Int63()
	}
	type ack struct {
		id      int32
		deleted bool
	}
	var acks []ack
	fail := func(s string) {
		mu.Lock()
		if failure == "" {
			failure = s
		}
		mu.Unlock()
	}
	startGate := make(chan struct{})
	gates := make([]sync.WaitGroup, opsPer)
	if burst {
		for i := range gates {
			gates[i].Add(clients)
		}
	}
	for c := 0; c < clients; c++ {
		wg.Add(1)
		go func(c int) {
			defer wg.Done()
			defer finished.Add(1)
			<-startGate // all callers are released together
			nextRound := 0
			defer func() { // a caller that stops early must not hold up the round barriers of the others
				for ; burst && nextRound < opsPer; nextRound++ {
					gates[nextRound].Done()
				}
			}()
			defer func() {
				if p := recover(); p != nil {
					fail("client panicked: " + fmt.Sprint(p))
				}
			}()
			lr := rand.New(rand.NewSource(seeds[c]))
			var mine []int32
			for n := 0; n < opsPer; n++ {
				if burst {
					gates[n].Done()
					nextRound = n + 1
					gates[n].Wait()
				}
				if exactlyOnce {
					// inserts of unique ids, deletes of own earlier ids, group updates
					if len(mine) == 0 || lr.Intn(3) != 0 {
						id := int32(1000 + c*1000 + n)
						sql := fmt.Sprintf("INSERT INTO acct0(id, g1, g2, val) VALUES (%d, %d, %d, 'c%02dn%04d');", id, id%3, id%4, c, n)
						err, out := db.S.ExecuteSQL(sql)
						if err != nil || len(out) != 0 {
							fail(fmt.Sprintf("%s returned (%v, %v)", sql, err, out))
							return
						}
						mine = append(mine, id)
						mu.Lock()
						acks = append(acks, ack{id: id})
						mu.Unlock()
					} else {
						i := lr.Intn(len(mine))
						id := mine[i]
						mine = append(mine[:i], mine[i+1:]...)
						sql := fmt.Sprintf("DELETE FROM acct0 WHERE id = %d;", id)
						err, out := db.S.ExecuteSQL(sql)
						if err != nil || len(out) != 0 {
							fail(fmt.Sprintf("%s returned (%v, %v)", sql, err, out))
							return
						}
						mu.Lock()
						acks = append(acks, ack{id: id, deleted: true})
						mu.Unlock()
					}
					continue
				}
				if ddl && lr.Intn(8) == 0 && created.Add(1) <= 8 {
					// DDL among the callers, next to the forced checkpoints of the background goroutine
					sql := fmt.Sprintf("CREATE TABLE side%dn%d(a INT, b VARCHAR(32));", c, n)
					err, out := db.S.ExecuteSQL(sql)
					if err != nil || len(out) != 0 {
						fail(fmt.Sprintf("%s returned (%v, %v)", sql, err, out))
						return
					}
					sql = fmt.Sprintf("INSERT INTO side%dn%d(a, b) VALUES (%d, 'x');", c, n, n)
					if err, out := db.S.ExecuteSQL(sql); err != nil || len(out) != 0 {
						fail(fmt.Sprintf("%s returned (%v, %v)", sql, err, out))
						return
					}
					ddlDone.Add(1)
				}
				if refusing && lr.Intn(2) == 0 {
					// a statement the engine has to refuse (parse / plan error): the caller gets an error of its own statement, nothing else
					// changes - in particular not the request manager's ability to run the statements queued behind it
					bad := []string{
						"SELEC id FROM acct0;",
						"SELECT id FROM acct_no_such_table WHERE id = 1;",
						"SELECT nocol FROM acct0 WHERE id = 1;",
						"CREATE TABLE acct0(id INT, g1 INT, g2 INT, val VARCHAR(64));",
						"UPDATE acct0 SET nocol = 1 WHERE id = 1;",
						"INSERT INTO acct_no_such_table(a) VALUES (1);",
					}[lr.Intn(6)]
					err, out := db.S.ExecuteSQL(bad)
					if err == nil || len(out) != 0 {
						fail(fmt.Sprintf("%s (a statement that cannot be executed) returned (%v, %v)", bad, err, out))
						return
					}
					refused.Add(1)
				}
				in := c12In{Bank: lr.Intn(banks), Grp: []string{"g1", "g2", "id"}[lr.Intn(3)]}
				switch in.Grp {
				case "g1":
					in.X = lr.Intn(3)
				case "g2":
					in.X = lr.Intn(4)
				default:
					in.X = lr.Intn(12)
				}
				in.Write = in.Grp != "id" && lr.Intn(2) == 0
				if burst && lr.Intn(5) != 0 {
					// mostly conflicting multi-row writes on few groups
					in.Grp, in.X, in.Write = "g1", lr.Intn(3), true
				}
				var sql string
				if in.Write {
					in.Tok = fmt.Sprintf("c%02dn%04d", c, n)
					if growing {
						in.Tok += strings.Repeat("g", lr.Intn(40))
					}
					sql = fmt.Sprintf("UPDATE acct%d SET val = '%s' WHERE %s = %d;", in.Bank, in.Tok, in.Grp, in.X)
					if lr.Intn(3) == 0 {
						// the same group write on the scan path (OR keeps the optimizer from using the index): the statement walks the whole
						// heap and meets the locks of other callers half way
						sql = fmt.Sprintf("UPDATE acct%d SET val = '%s' WHERE %s = %d OR %s = %d;", in.Bank, in.Tok, in.Grp, in.X, in.Grp, in.X)
						scanWrites.Add(1)
					}
				} else {
					sql = fmt.Sprintf("SELECT id, val FROM acct%d WHERE %s = %d;", in.Bank, in.Grp, in.X)
				}
				call := clock.Add(1)
				err, out := db.S.ExecuteSQL(sql)
				ret := clock.Add(1)
				if err != nil {
					fail(fmt.Sprintf("%s returned error %v", sql, err))
					return
				}
				var output string
				if in.Write {
					if len(out) != 0 {
						fail(fmt.Sprintf("%s (DML) returned rows %v", sql, out))
						return
					}
				} else {
					// oracle 2: exactly the ids of the group, each once, two columns
					got := map[int]string{}
					for _, row := range out {
						if len(row) != 2 {
							fail(fmt.Sprintf("%s returned a row with %d columns", sql, len(row)))
							return
						}
						id, ok1 := row[0].(int32)
						val, ok2 := row[1].(string)
						if !ok1 || !ok2 {
							fail(fmt.Sprintf("%s returned a row of unexpected types %T, %T", sql, row[0], row[1]))
							return
						}
						if _, dup := got[int(id)]; dup {
							fail(fmt.Sprintf("%s returned id %d twice", sql, id))
							return
						}
						got[int(id)] = val
					}
					members := c12Members(in.Grp, in.X)
					var parts []string
					for _, id := range members {
						v, ok := got[id]
						if !ok {
							fail(fmt.Sprintf("%s: result lacks id %d of the group (got %v)", sql, id, out))
							return
						}
						parts = append(parts, fmt.Sprintf("%d=%s", id, v))
					}
					if len(got) != len(members) {
						fail(fmt.Sprintf("%s: result holds ids outside the group: %v", sql, out))
						return
					}
					output = strings.Join(parts, ";")
				}
				mu.Lock()
				ops = append(ops, porcupine.Operation{ClientId: c, Input: in, Call: call, Output: output, Return: ret})
				mu.Unlock()
			}
		}(c)
	}
	close(startGate)
	// background activity
	bgStop := make(chan struct{})
	var bg sync.WaitGroup
	bg.Add(1)
	go c12Background(db, bgStop, &bg)
	// oracle 4: completion
	done := make(chan struct{})
	go func() { wg.Wait(); close(done) }()
	hung := false
	select {
	case <-done:
	case <-time.After(60 * time.Second):
		// not finished after 60 s: is anything still making progress? Two samples 10 s apart of (operations completed,
		// goroutine dump). No completed operation in between AND every goroutine that is inside the engine's statement
		// path or a client call is blocked (channel / lock / select wait), none running or runnable -> nobody can ever
		// complete these calls: deadlock / lost wake-up. (The harness's own background goroutine keeps running and is ignored.)
		mu.Lock()
		n1 := len(ops) + len(acks)
		mu.Unlock()
		f1 := finished.Load()
		time.Sleep(10 * time.Second)
		d2 := allStacks()
		mu.Lock()
		n2 := len(ops) + len(acks)
		mu.Unlock()
		select {
		case <-done:
		default:
			hung = true
			res.RestartChild = true
			active, activeSample := c12EngineIdle(d2)
			if n1 == n2 && f1 == finished.Load() && active == 0 {
				res.Violate("call-never-returns", tags, desc, "%d of %d clients have not returned 70 s after start; no call completed during the last 10 s and every client / request-manager / statement goroutine is blocked on a channel or lock: deadlock or lost wake-up. Engine frames: %s", clients-int(finished.Load()), clients, engineFrames([]byte(d2)))
			} else {
				res.Inconclusive = "clients still busy after 70 s (retry storm or slow machine)"
				fmt.Fprintf(os.Stderr, "C12 idx %d busy after 70 s: completed %d -> %d, finished clients %d -> %d of %d, %d engine goroutines not blocked; e.g. %s\n", idx, n1, n2, f1, finished.Load(), clients, active, activeSample)
			}
		}
	}
	close(bgStop)
	if hung {
		return res
	}
	bg.Wait()
	res.Add("histories", 1)
	res.Add("operations", int64(len(ops)))
	res.Add("clients", int64(clients))
	res.Add("refused_statements_answered_with_an_error", refused.Load())
	res.Add("group_writes_on_the_scan_path", scanWrites.Load())
	res.Add("tables_created_by_callers_next_to_dml", ddlDone.Load())
	if failure != "" {
		k := "wrong-result"
		if strings.Contains(failure, "panicked") {
			k = "panic"
		}
		res.Violate(k, tags, desc, "%s", clipStr(failure, 600))
		guarded(func() { db.S.ShutdownForTescase() })
		return res
	}
	if exactlyOnce {
		var fin [][]interface{}
		var ferr error
		if msg, panicked := guarded(func() { ferr, fin = db.S.ExecuteSQL("SELECT id, val FROM acct0 WHERE id >= 0;") }); panicked || ferr != nil {
			res.Violate("panic", tags, desc, "final read failed: %s %v", msg, ferr)
			return res
		}
		count := map[int32]int{}
		for _, row := range fin {
			count[row[0].(int32)]++
		}
		deleted := map[int32]bool{}
		for _, a := range acks {
			if a.deleted {
				deleted[a.id] = true
			}
		}
		ins := 0
		for _, a := range acks {
			if a.deleted {
				continue
			}
			ins++
			want := 1
			if deleted[a.id] {
				want = 0
			}
			if count[a.id] != want {
				res.Violate("not-exactly-once", tags, desc, "acknowledged INSERT of id %d (deleted later: %v) is present %d times at quiescence", a.id, deleted[a.id], count[a.id])
			}
		}
		for id := int32(0); id < 12; id++ {
			if count[id] != 1 {
				res.Violate("not-exactly-once", tags, desc, "initial row %d is present %d times at quiescence", id, count[id])
			}
		}
		res.Add("acknowledged_inserts", int64(ins))
		res.Add("acknowledged_deletes", int64(len(deleted)))
		res.Nontrivial = ins > 10
	} else {
		// overlap measure
		overlap := 0
		for i := range ops {
			if burst {
				break
			}
			for j := i + 1; j < len(ops); j++ {
				a, b := ops[i], ops[j]
				ia, ib := a.Input.(c12In), b.Input.(c12In)
				if ia.Bank != ib.Bank || (!ia.Write && !ib.Write) || a.Return < b.Call || b.Return < a.Call {
					continue
				}
				ma := map[int]bool{}
				for _, id := range c12Members(ia.Grp, ia.X) {
					ma[id] = true
				}
				for _, id := range c12Members(ib.Grp, ib.X) {
					if ma[id] {
						overlap++
						break
					}
				}
			}
		}
		res.Add("overlapping_conflicting_pairs", int64(overlap))
		if overlap >= 10 {
			res.Nontrivial = true
		}
		if burst {
			res.Add("burst_operations_returned", int64(len(ops)))
			res.Nontrivial = true
			guarded(func() { db.S.ShutdownForTescase() })
			res.Key = fmt.Sprintf("c12-%d", idx)
			return res
		}
		result, info := porcupine.CheckOperationsVerbose(c12Model, ops, 25*time.Second)
		switch result {
		case porcupine.Unknown:
			res.Inconclusive = "porcupine timed out"
		case porcupine.Illegal:
			// describe the partition that failed: list its operations in call order
			var lines []string
			bad := -1
			for b := 0; b < banks; b++ {
				var part []porcupine.Operation
				for _, op := range ops {
					if op.Input.(c12In).Bank == b {
						part = append(part, op)
					}
				}
				if r2 := porcupine.CheckOperations(porcupine.Model{Init: c12Model.Init, Step: c12Model.Step, Equal: c12Model.Equal}, part); !r2 {
					bad = b
					sort.Slice(part, func(i, j int) bool { return part[i].Call < part[j].Call })
					for _, op := range part {
						lines = append(lines, fmt.Sprintf("[%d,%d] c%d %s", op.Call, op.Return, op.ClientId, c12Model.DescribeOperation(op.Input, op.Output)))
					}
					break
				}
			}
			_ = info
			d2 := map[string]any{"history_of_bank": lines}
			for k, v := range desc {
				d2[k] = v
			}
			res.Violate("not-linearizable", tags, d2, "the history of bank %d (%d operations) is equivalent to no serial order consistent with real time (atomic group writes, group reads)", bad, len(lines))
		}
		res.Add("porcupine_checks", 1)
		// final state must be the state of some linearization: at least every row holds init or an acknowledged token of a write covering it
		for b := 0; b < banks; b++ {
			var out [][]interface{}
			guarded(func() { _, out = db.S.ExecuteSQL(fmt.Sprintf("SELECT id, val FROM acct%d WHERE id >= 0;", b)) })
			if len(out) != 12 {
				res.Violate("row-count-changed", tags, desc, "bank %d holds %d rows at quiescence (the workload neither adds nor removes rows)", b, len(out))
			}
		}
	}
	guarded(func() { db.S.ShutdownForTescase() })
	res.Key = fmt.Sprintf("c12-%d", idx)
	if idx < 2 {
		res.Sample = desc
	}
	return res
}

// c12Background forces checkpoints and statistics updates next to the clients until stop is closed.
func c12Background(db *sqlx.DB, stop chan struct{}, wg *sync.WaitGroup) {
	defer wg.Done()
	defer func() { recover() }()
	for {
		select {
		case <-stop:
			return
		default:
		}
		db.S.ForceCheckpointingForTestcase()
		db.UpdateStats()
		time.Sleep(2 * time.Millisecond)
	}
}

// c12EngineIdle reports how many goroutines inside a client call, the request manager or a statement thread are NOT blocked on a
// channel / lock / select in the given dump (the harness's own background goroutine is ignored), and one of them as a sample.
func c12EngineIdle(dump string) (active int, sample string) {
	for _, g := range strings.Split(dump, "\n\n") {
		if !strings.Contains(g, "samehada.(*SamehadaDB).ExecuteSQL") && !strings.Contains(g, "samehada.(*RequestManager)") && !strings.Contains(g, "checks.c12") {
			continue
		}
		if strings.Contains(g, "ForceCheckpointingForTestcase") || strings.Contains(g, "UpdateStats") || strings.Contains(g, "checks.allStacks") || strings.Contains(g, "checks.c12Background") {
			continue
		}
		head := g
		if i := strings.Index(g, "\n"); i > 0 {
			head = g[:i]
		}
		if strings.Contains(head, "[running]") || strings.Contains(head, "[runnable]") || strings.Contains(head, "[sleep") || strings.Contains(head, "[syscall") {
			active++
			if sample == "" {
				sample = clipStr(g, 600)
			}
		}
	}
	return
}

// c12Stampede: every sixteenth history. In each of 150 rounds 400-1500 fresh goroutines enter ExecuteSQL at the same instant with ONE
// short statement each (nine of ten: point reads) - far more callers than the request manager's channel holds, and answers that are
// ready while most callers are still queueing their requests. Judged by the direct rules: every call returns, once, with the rows of
// its own statement; a group write is atomic for the reads of the NEXT round (nothing runs between rounds). Progress is sampled every
// 10 s: no completed call between two samples AND every client / request-manager / statement goroutine blocked -> call-never-returns.
func c12Stampede(env *core.Env, idx int) *core.CaseResult {
	r := env.Rand(idx)
	res := core.NewResult()
	old := runtime.GOMAXPROCS(16)
	defer runtime.GOMAXPROCS(old)
	callers := 400 + r.Intn(1101)
	rounds := 150
	if env.Thorough() {
		rounds = 300
	}
	memKB := []int{1024, 4096}[r.Intn(2)]
	db := sqlx.Open(fmt.Sprintf("%s/c12_%d", env.TmpDir, idx), memKB, sqlx.Options{})
	desc := map[string]any{"seed": env.Seed, "idx": idx, "callers_per_round": callers, "rounds": rounds, "memKB": memKB, "class": "stampede"}
	tags := []string{"equal-length-tokens", "burst-of-callers", "stampede"}
	res.Add("stampede_histories", 1)
	cols := []rm.Col{{Name: "id", K: rm.KInt}, {Name: "g1", K: rm.KInt}, {Name: "g2", K: rm.KInt}, {Name: "val", K: rm.KStr}}
	if err := db.CreateTableSQL("acct0", cols); err != nil {
		res.Inconclusive = "create table failed"
		return res
	}
	var rows []rm.Row
	for id := 0; id < 12; id++ {
		rows = append(rows, rm.Row{rm.Int(int32(id)), rm.Int(int32(id % 3)), rm.Int(int32(id % 4)), rm.Str("init0000")})
	}
	txn := db.Begin()
	db.InsertPlan(txn, "acct0", rows)
	db.Commit(txn)
	var mu sync.Mutex
	failure := ""
	fail := func(s string) {
		mu.Lock()
		if failure == "" {
			failure = s
		}
		mu.Unlock()
	}
	var returned atomic.Int64
	total := int64(0)
	// tokens a row may hold: written by a group write of some round (acknowledged or not yet) or the initial one
	for round := 0; round < rounds; round++ {
		var wg sync.WaitGroup
		start := make(chan struct{})
		seeds := make([]int64, callers)
		for i := range seeds {
			seeds[i] = r.Int63()
		}
		for c := 0; c < callers; c++ {
			wg.Add(1)
			go func(c int) {
				defer wg.Done()
				defer func() {
					if p := recover(); p != nil {
						fail("client panicked: " + fmt.Sprint(p))
					}
				}()
				lr := rand.New(rand.NewSource(seeds[c]))
				<-start
				if lr.Intn(10) == 0 {
					g := lr.Intn(3)
					sql := fmt.Sprintf("UPDATE acct0 SET val = 'r%03d%04d' WHERE g1 = %d;", round, c, g)
					err, out := db.S.ExecuteSQL(sql)
					if err != nil || len(out) != 0 {
						fail(fmt.Sprintf("%s returned (%v, %v)", sql, err, out))
					}
				} else {
					id := int32(lr.Intn(12))
					sql := fmt.Sprintf("SELECT id, val FROM acct0 WHERE id = %d;", id)
					err, out := db.S.ExecuteSQL(sql)
					if err != nil || len(out) != 1 || len(out[0]) != 2 {
						fail(fmt.Sprintf("%s returned (%v, %v)", sql, err, out))
					} else if got, ok := out[0][0].(int32); !ok || got != id {
						fail(fmt.Sprintf("%s returned the row of another statement: %v", sql, out))
					} else if v, ok := out[0][1].(string); !ok || len(v) != 8 {
						fail(fmt.Sprintf("%s returned a value nobody wrote: %v", sql, out))
					}
				}
				returned.Add(1)
			}(c)
		}
		total += int64(callers)
		close(start)
		fin := make(chan struct{})
		go func() { wg.Wait(); close(fin) }()
		last := int64(-1)
		stalled := 0
	wait:
		for {
			select {
			case <-fin:
				break wait
			case <-time.After(10 * time.Second):
				n := returned.Load()
				if n != last {
					last, stalled = n, 0
					continue
				}
				active, sample := c12EngineIdle(allStacks())
				if active == 0 && returned.Load() == n {
					d2 := allStacks()
					res.RestartChild = true
					res.Violate("call-never-returns", tags, desc, "round %d: %d of %d calls issued so far have returned, none during the last 10 s, and every client / request-manager / statement goroutine is blocked on a channel or lock: deadlock or lost wake-up. Engine frames: %s", round, n, total, engineFrames([]byte(d2)))
					return res
				}
				stalled++
				if stalled >= 6 {
					res.RestartChild = true
					res.Inconclusive = "clients still busy after 70 s (retry storm or slow machine)"
					fmt.Fprintf(os.Stderr, "C12 idx %d stampede stalled: %d of %d returned, %d engine goroutines not blocked, e.g. %s\n", idx, n, total, active, sample)
					return res
				}
			}
		}
		// between rounds nothing runs: a group is uniform (group writes are atomic and serial)
		if round%10 == 9 || round == rounds-1 {
			var out [][]interface{}
			var ferr error
			if msg, panicked := guarded(func() { ferr, out = db.S.ExecuteSQL("SELECT id, val FROM acct0 WHERE id >= 0;") }); panicked || ferr != nil {
				res.Violate("panic", tags, desc, "read between rounds failed: %s %v", msg, ferr)
				return res
			}
			if len(out) != 12 {
				res.Violate("row-count-changed", tags, desc, "%d rows at quiescence after round %d (the workload neither adds nor removes rows)", len(out), round)
				return res
			}
			byGroup := map[int32]map[string]bool{}
			for _, row := range out {
				g := row[0].(int32) % 3
				if byGroup[g] == nil {
					byGroup[g] = map[string]bool{}
				}
				byGroup[g][row[1].(string)] = true
			}
			for g, vals := range byGroup {
				if len(vals) != 1 {
					res.Violate("group-write-not-atomic", tags, desc, "after round %d with no call in flight the rows of group g1=%d hold %d different tokens %v: some multi-row UPDATE took effect partially", round, g, len(vals), vals)
					return res
				}
			}
			res.Add("stampede_quiescent_reads", 1)
		}
		if failure != "" {
			break
		}
	}
	res.Add("stampede_rounds", int64(rounds))
	res.Add("burst_operations_returned", returned.Load())
	res.Add("histories", 1)
	if failure != "" {
		k := "wrong-result"
		if strings.Contains(failure, "panicked") {
			k = "panic"
		}
		res.Violate(k, tags, desc, "%s", clipStr(failure, 600))
	}
	res.Nontrivial = true
	guarded(func() { db.S.ShutdownForTescase() })
	res.Key = fmt.Sprintf("c12-%d", idx)
	return res
}

func allStacks() string {
	buf := make([]byte, 4<<20)
	return string(buf[:runtime.Stack(buf, true)])
}

// stripAddrs removes addresses and argument values so that two dumps of the same blocked state compare equal.
func stripAddrs(s string) string {
	var out []string
	for _, line := range strings.Split(s, "\n") {
		if i := strings.Index(line, "("); i > 0 && !strings.HasPrefix(line, "goroutine") {
			line = line[:i]
		}
		if i := strings.Index(line, " +0x"); i > 0 {
			line = line[:i]
		}
		if strings.HasPrefix(line, "goroutine ") {
			// drop wait durations "[chan receive, 2 minutes]"
			if j := strings.Index(line, ","); j > 0 {
				line = line[:j] + "]:"
			}
		}
		out = append(out, line)
	}
	return strings.Join(out, "\n")
}
