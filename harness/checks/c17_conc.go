package checks

// C17, concurrent part: goroutines over 64 keys with unique (key,row id) entries and a static background set.

import (
	"fmt"
	"math/rand"
	"runtime"
	"strings"
	"sync"
	"sync/atomic"
	"time"

	"verifharness/internal/core"
	im "verifharness/internal/idxmodel"
)

const (
	c17FgKeys = 64
	// entries one key may carry over a whole history (the porcupine state is a bit set of im.MaxEntsPerKey bits)
	c17PerKeyCap = im.MaxEntsPerKey - 8
)

type c17ConcCfg struct {
	Kind     int    `json:"-"`
	KT       int    `json:"-"`
	KindName string `json:"kind"`
	TypeName string `json:"key_type"`
	Workers  int    `json:"workers"`
	Mutators int    `json:"mutators"`
	Procs    int    `json:"gomaxprocs"`
	Steps    int    `json:"steps_per_worker"`
	StrLen   int    `json:"string_length,omitempty"`
	Frames   int    `json:"pool_frames"`
	Lead     int    `json:"background_keys_before"`
	Tail     int    `json:"background_keys_after"`
	BgPerKey int    `json:"background_rids_per_key"`
	Preload  int    `json:"preloaded_entries_per_mutator"`
	Profile  string `json:"profile"`
	Updates  bool   `json:"updates"`
	TwoCols  bool   `json:"two_columns"`
	// HotAdjacent: the 8 hot keys are neighbours (a region of a few nodes that splits and empties under all workers at once)
	HotAdjacent bool `json:"hot_keys_adjacent"`
}

func (c *c17ConcCfg) tags() []string {
	t := []string{c.KindName, "type-" + c.TypeName, c.KindName + "/" + c.TypeName, "concurrent", "concurrent/" + c.KindName}
	if c.Kind != c17Hash {
		// every ordered-kind configuration is built so that nodes split (and mostly empty) while other goroutines are inside
		t = append(t, "concurrent-split")
	}
	if c.KT == im.KStr && c.StrLen >= 200 {
		t = append(t, "long-keys")
	}
	if c.Updates {
		t = append(t, "concurrent-update")
	}
	return t
}

func c17ConcConfig(env *core.Env, cidx int) *c17ConcCfg {
	rng := env.Rand(500_000 + cidx)
	mix := cidx + cidx/16 // the runner shards by idx % 16; every shard gets every kind
	c := &c17ConcCfg{Kind: mix % 4, KT: []int{im.KInt, im.KStr, im.KFloat, im.KStr, im.KStr, im.KStr}[(mix/4)%6]}
	c.KindName, c.TypeName = c17KindNames[c.Kind], c17TypeNames[c.KT]
	c.Workers = []int{4, 8, 8, 16, 16}[rng.Intn(5)]
	c.Mutators = c.Workers/2 + rng.Intn(c.Workers/2)
	c.Procs = []int{1, 2, 4, 16, 16, 16}[rng.Intn(6)]
	c.Steps = 150 + rng.Intn(250)
	if env.Thorough() && rng.Intn(3) == 0 {
		c.Steps = 400 + rng.Intn(400)
	}
	c.HotAdjacent = rng.Intn(2) == 0
	if c.KT == im.KStr {
		if c.Kind == c17Btree {
			c.StrLen = 8 + rng.Intn(17)
		} else {
			c.StrLen = []int{8, 40, 250, 600, 600, 900, 900}[rng.Intn(7)] // long keys: 4-14 entries per node, nodes split and empty all the time
		}
	}
	c.Frames = 2048
	c.Lead = 2 + rng.Intn(120)
	c.Tail = 2 + rng.Intn(120)
	c.BgPerKey = 1 + rng.Intn(3)
	c.Preload = []int{0, 5, 20, 40}[rng.Intn(4)]
	c.Profile = []string{"grow-drain", "grow-drain", "balanced", "drain"}[rng.Intn(4)]
	if c.Profile == "drain" && c.Preload < 20 {
		c.Preload = 40
	}
	if c.Kind == c17Uniq {
		c.BgPerKey = 1
		if c.Preload > c17FgKeys/c.Mutators {
			c.Preload = c17FgKeys / c.Mutators
		}
	}
	c.Updates = c.Kind != c17Hash && rng.Intn(2) == 0
	c.TwoCols = rng.Intn(4) == 0
	if cidx%6 == 5 {
		// "hammer": nearly all workers mutate a small region of neighbouring keys for a long time, so that splits and
		// removals of neighbouring nodes collide. Keys get more entries than the porcupine state holds: those keys are
		// decided by the direct rules and the final state only (counted as conc_keys_too_wide_for_porcupine).
		c.Profile = "hammer"
		c.Workers, c.Mutators, c.Procs = 16, 14, 16
		c.Steps = 1000 + rng.Intn(500)
		if env.Thorough() {
			c.Steps = 2000 + rng.Intn(1000)
		}
		c.HotAdjacent = true
		c.Preload = 0
		if c.KT == im.KStr && c.Kind != c17Btree {
			c.StrLen = []int{250, 600}[rng.Intn(2)]
		}
	}
	return c
}

const (
	c17StepIns = im.OpIns
	c17StepDel = im.OpDel
	c17StepUpd = im.OpUpd
	c17StepGet = im.OpRead
	c17StepScn = im.OpScan
)

type c17Step struct {
	Kind       int
	Key, Key2  int
	Make, Kill int
	Lo, Hi     int
}

type c17ConcCase struct {
	cfg    *c17ConcCfg
	keys   []im.Key
	fg     []int // key indexes of the 64 foreground keys
	bgOnly []int
	ents   []im.EntInfo
	progs  [][]c17Step
}

// tags of a built case: the configuration's tags plus "key-spans-nodes" when, on the non-unique skip list, the row ids
// one key receives over the history do not fit into one node page (a point lookup then walks several nodes).
func (cc *c17ConcCase) tags() []string {
	t := cc.cfg.tags()
	if cc.cfg.Kind == c17Skip {
		per := make([]int, len(cc.keys))
		most := 0
		for _, e := range cc.ents {
			per[e.Key]++
			if per[e.Key] > most {
				most = per[e.Key]
			}
		}
		size := 27
		if cc.cfg.KT == im.KStr {
			size += cc.cfg.StrLen
		}
		if most*size > 2000 {
			t = append(t, "key-spans-nodes")
		}
	}
	return t
}

func c17KeyAt(kt int, base int, n int, strLen int, prefix string) im.Key {
	switch kt {
	case im.KInt:
		return im.Key{T: im.KInt, I: int32(base + 3*n)}
	case im.KFloat:
		return im.Key{T: im.KFloat, F: float32(base+n) * 0.5}
	}
	s := fmt.Sprintf("%s%05d", prefix, n)
	if len(s) > strLen {
		s = fmt.Sprintf("%05d", n)
	}
	if len(s) < strLen {
		s += strings.Repeat("x", strLen-len(s))
	}
	return im.Key{T: im.KStr, S: s}
}

func c17BuildConc(env *core.Env, cidx int, cfg *c17ConcCfg) *c17ConcCase {
	rng := env.Rand(700_000 + cidx)
	cc := &c17ConcCase{cfg: cfg}
	base := rng.Intn(2000) - 1000
	if rng.Intn(3) == 0 {
		base = -(cfg.Lead + c17FgKeys) // foreground keys straddle zero
	}
	prefix := []string{"", "k", "key-", "SamehadaDBInf"}[rng.Intn(4)]
	n := 0
	addKey := func() int {
		cc.keys = append(cc.keys, c17KeyAt(cfg.KT, base, n, cfg.StrLen, prefix))
		n++
		return len(cc.keys) - 1
	}
	for i := 0; i < cfg.Lead; i++ {
		cc.bgOnly = append(cc.bgOnly, addKey())
	}
	for i := 0; i < c17FgKeys; i++ {
		cc.fg = append(cc.fg, addKey())
		if i < c17FgKeys/2 { // region A: an untouched key between neighbours; region B: foreground keys only (nodes can empty)
			cc.bgOnly = append(cc.bgOnly, addKey())
		}
	}
	for i := 0; i < cfg.Tail; i++ {
		cc.bgOnly = append(cc.bgOnly, addKey())
	}
	for i := 1; i < len(cc.keys); i++ {
		if im.Compare(cc.keys[i-1], cc.keys[i]) >= 0 {
			panic("c17: concurrent key list not ascending")
		}
	}
	usedRid := map[im.RID]bool{}
	perKey := make([]int, len(cc.keys))
	perKeyCap := c17PerKeyCap
	if cfg.Profile == "hammer" {
		perKeyCap = 1 << 30
	}
	newEnt := func(k int, bg, pre bool) int {
		var r im.RID
		for {
			if rng.Intn(4) == 0 {
				r = im.RID{Page: int32(rng.Int63n(1 << 30)), Slot: uint32(rng.Intn(1 << 16))}
			} else {
				r = im.RID{Page: int32(rng.Intn(300)), Slot: uint32(rng.Intn(64))}
			}
			if !usedRid[r] {
				break
			}
		}
		usedRid[r] = true
		perKey[k]++
		cc.ents = append(cc.ents, im.EntInfo{Key: k, Rid: r, Background: bg, Preloaded: pre})
		return len(cc.ents) - 1
	}
	for _, k := range cc.bgOnly {
		for j := 0; j < 1+rng.Intn(cfg.BgPerKey); j++ {
			newEnt(k, true, true)
		}
	}
	if cfg.Kind != c17Uniq {
		for i, k := range cc.fg {
			if i < c17FgKeys/2 {
				for j := 0; j < rng.Intn(3); j++ {
					newEnt(k, true, true)
				}
			}
		}
	}
	// programs
	cc.progs = make([][]c17Step, cfg.Workers)
	hot := make([]int, 8)
	for i := range hot {
		hot[i] = rng.Intn(c17FgKeys)
	}
	if cfg.HotAdjacent {
		first := c17FgKeys/2 + rng.Intn(c17FgKeys/2-len(hot))
		for i := range hot {
			hot[i] = first + i
		}
	}
	anyKey := func() int { // for reads: foreground mostly, background sometimes
		if rng.Intn(5) == 0 {
			return cc.bgOnly[rng.Intn(len(cc.bgOnly))]
		}
		if rng.Intn(2) == 0 {
			return cc.fg[hot[rng.Intn(len(hot))]]
		}
		return cc.fg[rng.Intn(c17FgKeys)]
	}
	scanStep := func() c17Step {
		lo, hi := rng.Intn(len(cc.keys)), rng.Intn(len(cc.keys))
		if lo > hi {
			lo, hi = hi, lo
		}
		switch rng.Intn(6) {
		case 0:
			lo = -1
		case 1:
			hi = -1
		case 2:
			lo, hi = -1, -1
		case 3: // a narrow window inside the foreground region
			lo = cc.fg[rng.Intn(c17FgKeys)]
			hi = lo + rng.Intn(12)
			if hi >= len(cc.keys) {
				hi = len(cc.keys) - 1
			}
		}
		return c17Step{Kind: c17StepScn, Lo: lo, Hi: hi, Make: -1, Kill: -1}
	}
	occupied := make([]bool, len(cc.keys)) // unique index: one entry per key
	for w := 0; w < cfg.Workers; w++ {
		mut := w < cfg.Mutators
		var own []int // live own entries
		var ownKeys []int
		if cfg.Kind == c17Uniq {
			for i, k := range cc.fg {
				if i%cfg.Mutators == w {
					ownKeys = append(ownKeys, k)
				}
			}
		}
		pickInsKey := func() int {
			if cfg.Kind == c17Uniq {
				for t := 0; t < 20; t++ {
					k := ownKeys[rng.Intn(len(ownKeys))]
					if !occupied[k] && perKey[k] < perKeyCap {
						return k
					}
				}
				return -1
			}
			for t := 0; t < 20; t++ {
				k := cc.fg[rng.Intn(c17FgKeys)]
				if rng.Intn(3) != 0 {
					k = cc.fg[hot[rng.Intn(len(hot))]]
				}
				if cfg.HotAdjacent {
					if rng.Intn(8) != 0 {
						k = cc.fg[hot[rng.Intn(len(hot))]]
					}
				} else if cfg.Profile != "balanced" || rng.Intn(3) == 0 { // region B gets more traffic: nodes there can empty
					k = cc.fg[c17FgKeys/2+rng.Intn(c17FgKeys/2)]
				}
				if perKey[k] < perKeyCap {
					return k
				}
			}
			return -1
		}
		// the hash index has a fixed capacity (2520 slots; an insert into a full table is dropped silently - outside the supported
		// envelope): all mutators together stay below c17HashCap live entries at every moment, whatever the schedule
		hashOwnCap := (c17HashCap - 500) / max(cfg.Mutators, 1)
		if mut {
			for j := 0; j < cfg.Preload; j++ {
				if k := pickInsKey(); k >= 0 {
					own = append(own, newEnt(k, false, true))
					occupied[k] = true
				}
			}
		}
		for s := 0; s < cfg.Steps; s++ {
			if !mut {
				if cfg.Kind != c17Hash && rng.Intn(2) == 0 {
					cc.progs[w] = append(cc.progs[w], scanStep())
				} else {
					cc.progs[w] = append(cc.progs[w], c17Step{Kind: c17StepGet, Key: anyKey(), Make: -1, Kill: -1})
				}
				continue
			}
			pIns := 0.5
			switch cfg.Profile {
			case "hammer": // waves: the region fills and empties several times
				pIns = 0.85
				if (s/150)%2 == 1 {
					pIns = 0.1
				}
			case "grow-drain":
				pIns = 0.9
				if s >= cfg.Steps/2 {
					pIns = 0.03
				}
			case "drain":
				pIns = 0.15
				if s > cfg.Steps*2/3 {
					pIns = 0.6
				}
			}
			x := rng.Float64()
			switch {
			case x < 0.12: // read a key this worker has just worked on, or any
				k := anyKey()
				if len(own) > 0 && rng.Intn(2) == 0 {
					k = cc.ents[own[rng.Intn(len(own))]].Key
				}
				cc.progs[w] = append(cc.progs[w], c17Step{Kind: c17StepGet, Key: k, Make: -1, Kill: -1})
			case x < 0.16 && cfg.Kind != c17Hash:
				cc.progs[w] = append(cc.progs[w], scanStep())
			case cfg.Updates && x < 0.30 && len(own) > 0:
				i := rng.Intn(len(own))
				old := own[i]
				k2 := cc.ents[old].Key
				if rng.Intn(2) == 0 {
					if k := pickInsKey(); k >= 0 {
						k2 = k
					}
				}
				if perKey[k2] >= perKeyCap {
					continue
				}
				occupied[cc.ents[old].Key] = false
				occupied[k2] = true
				ne := newEnt(k2, false, false)
				own[i] = ne
				cc.progs[w] = append(cc.progs[w], c17Step{Kind: c17StepUpd, Key: cc.ents[old].Key, Key2: k2, Kill: old, Make: ne})
			case (rng.Float64() < pIns || len(own) == 0) && !(cfg.Kind == c17Hash && len(own) >= hashOwnCap):
				k := pickInsKey()
				if k < 0 {
					continue
				}
				ne := newEnt(k, false, false)
				occupied[k] = true
				own = append(own, ne)
				cc.progs[w] = append(cc.progs[w], c17Step{Kind: c17StepIns, Key: k, Make: ne, Kill: -1})
			default:
				i := rng.Intn(len(own))
				if (cfg.Profile == "drain" && rng.Intn(2) == 0) || cfg.Profile == "grow-drain" { // delete neighbours together: nodes empty
					best := i
					for j := range own {
						if cc.ents[own[j]].Key > cc.ents[own[best]].Key {
							best = j
						}
					}
					i = best
				}
				e := own[i]
				own[i] = own[len(own)-1]
				own = own[:len(own)-1]
				occupied[cc.ents[e].Key] = false
				cc.progs[w] = append(cc.progs[w], c17Step{Kind: c17StepDel, Key: cc.ents[e].Key, Kill: e, Make: -1})
			}
		}
		if mut && cfg.Profile == "grow-drain" { // finish the sweep: everything this worker owns goes, highest key first
			for len(own) > 0 {
				best := 0
				for j := range own {
					if cc.ents[own[j]].Key > cc.ents[own[best]].Key {
						best = j
					}
				}
				e := own[best]
				own[best] = own[len(own)-1]
				own = own[:len(own)-1]
				occupied[cc.ents[e].Key] = false
				cc.progs[w] = append(cc.progs[w], c17Step{Kind: c17StepDel, Key: cc.ents[e].Key, Kill: e, Make: -1})
			}
		}
	}
	return cc
}

type c17WorkerLog struct {
	ops      []im.HOp
	done     int32
	panicked string
}

func c17Conc(env *core.Env, idx, cidx int, res *core.CaseResult) {
	cfg := c17ConcConfig(env, cidx)
	cc := c17BuildConc(env, cidx, cfg)
	tags := cc.tags()
	res.Key = "conc-" + c17CfgHash([]any{cfg, env.Seed, cidx})
	res.Seen("kinds_x_types", cfg.KindName+"/"+cfg.TypeName+"/concurrent")
	res.Add("conc_cases", 1)
	desc := map[string]any{"mode": "case", "seed": env.Seed, "tier": env.Tier, "idx": idx, "config": cfg, "tags": tags,
		"note": "schedule dependent: replaying runs the same programs again; repeat to reproduce"}
	c17ExecConc(cc, int64(cidx), res, tags, desc, cidx < 2)
}

// c17ScanVsDrain is the small focused concurrent witness: n keys with one row id each; the keys in [from,to) are
// deleted in ascending order and inserted again (new row ids) by one goroutine, `rounds` times, while `scanners`
// goroutines run full and partial range scans. Every other entry is never touched.
func c17ScanVsDrain(kind, kt, n, from, to, rounds, scanners, procs int) *c17ConcCase {
	cfg := &c17ConcCfg{Kind: kind, KT: kt, KindName: c17KindNames[kind], TypeName: c17TypeNames[kt], Workers: 1 + scanners, Mutators: 1, Procs: procs, Frames: 2048, Profile: "scan-vs-drain", StrLen: 12}
	cc := &c17ConcCase{cfg: cfg}
	for i := 0; i < n; i++ {
		cc.keys = append(cc.keys, c17KeyAt(kt, -n, i, cfg.StrLen, "k"))
	}
	rid := 0
	newEnt := func(k int, bg, pre bool) int {
		rid++
		cc.ents = append(cc.ents, im.EntInfo{Key: k, Rid: im.RID{Page: int32(rid / 50), Slot: uint32(rid % 50)}, Background: bg, Preloaded: pre})
		return len(cc.ents) - 1
	}
	cur := make([]int, n)
	for i := 0; i < n; i++ {
		cur[i] = newEnt(i, i < from || i >= to, true)
	}
	cc.progs = make([][]c17Step, cfg.Workers)
	for r := 0; r < rounds; r++ {
		for i := from; i < to; i++ {
			cc.progs[0] = append(cc.progs[0], c17Step{Kind: c17StepDel, Key: i, Kill: cur[i], Make: -1})
		}
		for i := from; i < to; i++ {
			cur[i] = newEnt(i, false, false)
			cc.progs[0] = append(cc.progs[0], c17Step{Kind: c17StepIns, Key: i, Make: cur[i], Kill: -1})
		}
	}
	for w := 1; w <= scanners; w++ {
		for j := 0; j < rounds*(to-from)/8+4; j++ {
			st := c17Step{Kind: c17StepScn, Lo: -1, Hi: -1, Make: -1, Kill: -1}
			if kind == c17Hash {
				st = c17Step{Kind: c17StepGet, Key: (j * 7) % n, Make: -1, Kill: -1}
			} else if j%3 == 1 && from > 0 {
				st.Lo = from - 1
			}
			cc.progs[w] = append(cc.progs[w], st)
		}
	}
	return cc
}

// c17DupRead is the focused witness for point lookups of a key whose row ids span several node pages: one key with
// `dups` row ids under a key of strLen bytes between two untouched keys; one goroutine deletes the row ids in a seeded
// random order and inserts as many new ones, `rounds` times, while `readers` goroutines call ScanKey on that key.
func c17DupRead(kind, strLen, dups, rounds, readers, procs int, seed int64) *c17ConcCase {
	cfg := &c17ConcCfg{Kind: kind, KT: im.KStr, KindName: c17KindNames[kind], TypeName: c17TypeNames[im.KStr], Workers: 1 + readers, Mutators: 1, Procs: procs, Frames: 2048, Profile: "dup-read", StrLen: strLen}
	cc := &c17ConcCase{cfg: cfg}
	for i := 0; i < 3; i++ {
		cc.keys = append(cc.keys, c17KeyAt(im.KStr, 0, i, strLen, "k"))
	}
	rng := rand.New(rand.NewSource(seed))
	rid := 0
	newEnt := func(k int, bg, pre bool) int {
		rid++
		cc.ents = append(cc.ents, im.EntInfo{Key: k, Rid: im.RID{Page: int32(rng.Intn(1 << 20)), Slot: uint32(rid)}, Background: bg, Preloaded: pre})
		return len(cc.ents) - 1
	}
	newEnt(0, true, true)
	newEnt(2, true, true)
	var live []int
	for i := 0; i < dups; i++ {
		live = append(live, newEnt(1, false, true))
	}
	cc.progs = make([][]c17Step, cfg.Workers)
	for r := 0; r < rounds; r++ {
		rng.Shuffle(len(live), func(i, j int) { live[i], live[j] = live[j], live[i] })
		for _, e := range live {
			cc.progs[0] = append(cc.progs[0], c17Step{Kind: c17StepDel, Key: 1, Kill: e, Make: -1})
		}
		for i := range live {
			live[i] = newEnt(1, false, false)
			cc.progs[0] = append(cc.progs[0], c17Step{Kind: c17StepIns, Key: 1, Make: live[i], Kill: -1})
		}
	}
	for w := 1; w <= readers; w++ {
		for j := 0; j < rounds*dups; j++ {
			cc.progs[w] = append(cc.progs[w], c17Step{Kind: c17StepGet, Key: 1, Make: -1, Kill: -1})
		}
	}
	return cc
}

func c17ExecConc(cc *c17ConcCase, loadSeed int64, res *core.CaseResult, tags []string, desc map[string]any, sample bool) {
	cfg := cc.cfg

	old := runtime.GOMAXPROCS(cfg.Procs)
	defer runtime.GOMAXPROCS(old)

	var f *c17Fix
	ridEnt := map[im.RID]int{}
	// sequential load + sanity check of the loaded state
	var loadViol string
	func() {
		defer func() {
			if p := recover(); p != nil {
				loadViol = "engine panic while loading the initial entries: " + c17PanicText(p)
			}
		}()
		f = c17NewFix(cfg.Kind, cfg.KT, cfg.Frames, cfg.TwoCols, cc.keys)
		order := rand.New(rand.NewSource(loadSeed)).Perm(len(cc.ents))
		for _, e := range order {
			if cc.ents[e].Preloaded {
				f.insert(cc.ents[e].Key, cc.ents[e].Rid)
			}
		}
		for e := range cc.ents {
			ridEnt[cc.ents[e].Rid] = e
		}
		// the loaded state is checked before the concurrent phase starts: every preloaded entry must be found under its key
		for e := range cc.ents {
			if !cc.ents[e].Preloaded {
				continue
			}
			found := false
			for _, r := range f.scanKey(cc.ents[e].Key) {
				if r == cc.ents[e].Rid {
					found = true
					break
				}
			}
			if !found {
				loadViol = fmt.Sprintf("after the sequential load, a lookup of key k%d does not return the loaded entry (k%d,%v)", cc.ents[e].Key, cc.ents[e].Key, cc.ents[e].Rid)
				return
			}
		}
	}()
	if loadViol != "" {
		k := "panic"
		if strings.HasPrefix(loadViol, "after the sequential load") {
			k = "readback"
		}
		res.Violate(k, tags, desc, "%s", loadViol)
		return
	}
	alloc0 := f.allocated()
	removed0 := int64(0)
	if cfg.Kind != c17Btree {
		removed0 = f.removedPages()
	}

	logs := make([]*c17WorkerLog, cfg.Workers)
	var clock int64
	var abort int32
	start := make(chan struct{})
	var wg sync.WaitGroup
	toEnts := func(rids []im.RID) (out []int, bad []im.RID) {
		for _, r := range rids {
			if e, ok := ridEnt[r]; ok {
				out = append(out, e)
			} else {
				bad = append(bad, r)
			}
		}
		return
	}
	for w := 0; w < cfg.Workers; w++ {
		lg := &c17WorkerLog{ops: make([]im.HOp, 0, len(cc.progs[w]))}
		logs[w] = lg
		wg.Add(1)
		go func(w int, lg *c17WorkerLog) {
			defer wg.Done()
			defer atomic.StoreInt32(&lg.done, 1)
			defer func() {
				if p := recover(); p != nil {
					lg.panicked = c17PanicText(p)
					atomic.StoreInt32(&abort, 1)
				}
			}()
			<-start
			for _, st := range cc.progs[w] {
				if atomic.LoadInt32(&abort) != 0 {
					return
				}
				lg.ops = append(lg.ops, im.HOp{Kind: st.Kind, Worker: w, Key: st.Key, Key2: st.Key2, Make: st.Make, Kill: st.Kill, Lo: st.Lo, Hi: st.Hi})
				o := &lg.ops[len(lg.ops)-1]
				o.Call = atomic.AddInt64(&clock, 1)
				switch st.Kind {
				case c17StepIns:
					f.insert(st.Key, cc.ents[st.Make].Rid)
				case c17StepDel:
					f.delete(st.Key, cc.ents[st.Kill].Rid)
				case c17StepUpd:
					f.update(st.Key, cc.ents[st.Kill].Rid, st.Key2, cc.ents[st.Make].Rid)
				case c17StepGet:
					o.Out, o.Bad = toEnts(f.scanKey(st.Key))
				case c17StepScn:
					rows, _ := f.rangeScan(st.Lo, st.Hi, len(cc.ents)+1000)
					rids := make([]im.RID, len(rows))
					for i := range rows {
						rids[i] = rows[i].rid
					}
					o.Out, o.Bad = toEnts(rids)
				}
				o.Ret = atomic.AddInt64(&clock, 1)
			}
		}(w, lg)
	}
	close(start)
	finished := make(chan struct{})
	go func() { wg.Wait(); close(finished) }()
	hung := false
	select {
	case <-finished:
	case <-time.After(90 * time.Second):
		hung = true
	}
	if hung {
		// the workers may still be running: their logs are not read (no race in the monitor)
		n := 0
		for w, lg := range logs {
			if atomic.LoadInt32(&lg.done) == 1 { // done is stored after panicked: reading it here is ordered
				n++
				if lg.panicked != "" {
					res.Violate("panic", tags, desc, "engine panic in worker %d (the other workers then blocked on what it held): %s", w, lg.panicked)
				}
			}
		}
		if len(res.Violations) > 0 {
			res.Add("conc_hung_cases", 1)
			return
		}
		res.Inconclusive = fmt.Sprintf("%s/%s: workers did not return within 90 s; deadlock or livelock suspected, not decided", cfg.KindName, cfg.TypeName)
		res.Add("conc_hung_workers", int64(cfg.Workers-n))
		res.Add("conc_hung_clock", atomic.LoadInt64(&clock))
		res.Add("conc_hung_cases", 1)
		return
	}
	panicked := false
	var ops []im.HOp
	for w, lg := range logs {
		if lg.panicked != "" {
			panicked = true
			last := "(no operation)"
			if len(lg.ops) > 0 {
				last = lg.ops[len(lg.ops)-1].String(cc.ents)
			}
			d := map[string]any{}
			for k, v := range desc {
				d[k] = v
			}
			d["operation"] = last
			res.Violate("panic", tags, d, "engine panic in worker %d during %s: %s", w, last, lg.panicked)
		}
		ops = append(ops, lg.ops...)
	}
	for i := range ops {
		res.Add("conc_ops", 1)
		res.Add("conc_ops_"+[]string{"ins", "del", "upd", "read", "scan"}[ops[i].Kind], 1)
	}

	// structure changes during the concurrent phase
	if !panicked {
		splits := f.allocated() - alloc0
		removals := int64(0)
		if cfg.Kind == c17Btree {
			// decided below, after the final-state check (closing the tree ends its use)
		} else if cfg.Kind != c17Hash {
			removals = f.removedPages() - removed0
			res.Add("node_splits_seen", splits)
			res.Add("node_removals_seen", removals)
			res.Add("conc_node_splits_seen", splits)
			res.Add("conc_node_removals_seen", removals)
			if splits >= 1 && removals >= 1 {
				res.Nontrivial = true
			}
		}
	}

	// history checks
	st := &im.HistStats{}
	var findings []im.Finding
	findings = append(findings, im.CheckReadsAndScans(len(cc.keys), cc.ents, ops, st)...)
	pf, undecided := im.CheckPerKey(len(cc.keys), cc.ents, ops, cfg.Kind == c17Uniq, 60*time.Second, st)
	findings = append(findings, pf...)
	res.Add("conc_keys_checked", int64(st.KeysChecked))
	res.Add("conc_keys_with_writes", int64(st.KeysWithWrites))
	res.Add("conc_overlapping_pairs", int64(st.OverlapPairs))
	res.Add("conc_scans_checked", int64(st.ScansChecked))
	res.Add("conc_scan_entries", int64(st.ScanEntries))
	res.Add("conc_background_entries_demanded", int64(st.BgExpected))
	res.Add("conc_stable_entries_demanded", int64(st.StableExpected))
	res.Add("conc_entries_seen_while_in_flight", int64(st.ConcurrentSeen))
	res.Add("conc_keys_too_wide_for_porcupine", int64(st.KeysTooWide))
	if cfg.Kind == c17Hash && st.OverlapPairs >= 10 {
		res.Nontrivial = true
	}
	for _, fd := range findings {
		d := map[string]any{}
		for k, v := range desc {
			d[k] = v
		}
		d["history"] = fd.History
		d["keys"] = c17HistKeys(cc, fd.History)
		res.Violate(fd.Kind, tags, d, "%s", fd.Detail)
	}
	if undecided {
		res.Add("conc_porcupine_undecided_keys", int64(st.PorcupineUnknown))
		if len(res.Violations) == 0 {
			res.Inconclusive = "porcupine did not decide every key history within its time limit"
		}
	}

	// quiescent final state
	if !panicked {
		func() {
			defer func() {
				if p := recover(); p != nil {
					res.Violate("panic", tags, desc, "engine panic in the final-state check after the concurrent phase: %s", c17PanicText(p))
				}
			}()
			alive := make([]bool, len(cc.ents))
			for e := range cc.ents {
				alive[e] = cc.ents[e].Preloaded
			}
			for i := range ops {
				if ops[i].Make >= 0 {
					alive[ops[i].Make] = true
				}
			}
			for i := range ops {
				if ops[i].Kill >= 0 {
					alive[ops[i].Kill] = false
				}
			}
			m := im.New(cc.keys, false)
			for e := range cc.ents {
				if alive[e] {
					m.Insert(cc.ents[e].Key, cc.ents[e].Rid)
				}
			}
			res.Add("conc_final_entries", int64(m.Len()))
			bad := 0
			for ki := range cc.keys {
				if d := im.CompareSet(f.scanKey(ki), m.Get(ki)); !d.Empty() && bad < 3 {
					bad++
					d2 := map[string]any{}
					for k, v := range desc {
						d2[k] = v
					}
					d2["key"] = c17KeyJSON(cc.keys[ki])
					d2["entry_histories"] = c17EntryHistories(cc, ops, ki, d)
					res.Violate("final-state", tags, d2, "after all workers returned, ScanKey(k%d = %s) differs from the entries that were inserted and not deleted: %s", ki, cc.keys[ki], d)
				}
			}
			if cfg.Kind != c17Hash {
				rows, runaway := f.rangeScan(-1, -1, m.Len()+1000)
				got := make([]im.RID, len(rows))
				for i := range rows {
					got[i] = rows[i].rid
				}
				d, brk := m.CheckRange(got, nil, nil)
				if runaway || !d.Empty() || brk >= 0 {
					res.Violate("final-state", tags, desc, "after all workers returned, the full range scan differs from the entries that were inserted and not deleted: runaway=%v order-break-at=%d %s", runaway, brk, d)
				}
			}
			if cfg.Kind == c17Btree {
				splits := f.allocated() - alloc0
				_, freed := f.closeBtree()
				res.Add("node_splits_seen", splits)
				res.Add("node_removals_seen", freed)
				res.Add("conc_node_splits_seen", splits)
				res.Add("conc_node_removals_seen", freed)
				if splits >= 1 && freed >= 1 {
					res.Nontrivial = true
				}
			}
		}()
	}
	if res.Nontrivial {
		res.Add("conc_cases_nontrivial", 1)
	}
	if sample {
		var first []string
		for i := 0; i < len(ops) && i < 10; i++ {
			first = append(first, ops[i].String(cc.ents))
		}
		res.Sample = map[string]any{"config": cfg, "keys": len(cc.keys), "entries": len(cc.ents), "operations": len(ops), "first_operations_of_worker_0": first}
	}
}

func c17HistKeys(cc *c17ConcCase, hist []string) map[string]string {
	out := map[string]string{}
	for _, h := range hist {
		for _, f := range strings.FieldsFunc(h, func(r rune) bool { return !(r == 'k' || (r >= '0' && r <= '9')) }) {
			if len(f) > 1 && f[0] == 'k' {
				var n int
				if _, err := fmt.Sscanf(f, "k%d", &n); err == nil && n >= 0 && n < len(cc.keys) && len(out) < 12 {
					s := c17KeyJSON(cc.keys[n])
					if len(s) > 48 {
						s = s[:48] + fmt.Sprintf("...(len %d)", len(cc.keys[n].S))
					}
					out[fmt.Sprintf("k%d", n)] = s
				}
			}
		}
	}
	return out
}

func c17EntryHistories(cc *c17ConcCase, ops []im.HOp, ki int, d *im.Diff) []string {
	want := map[im.RID]bool{}
	for _, r := range d.Missing {
		want[r] = true
	}
	for _, r := range d.Extra {
		want[r] = true
	}
	for _, r := range d.Dup {
		want[r] = true
	}
	var out []string
	for e := range cc.ents {
		if !want[cc.ents[e].Rid] {
			continue
		}
		out = append(out, fmt.Sprintf("entry (k%d,%v) background=%v preloaded=%v", cc.ents[e].Key, cc.ents[e].Rid, cc.ents[e].Background, cc.ents[e].Preloaded))
		for i := range ops {
			if ops[i].Make == e || ops[i].Kill == e {
				out = append(out, "  "+ops[i].String(cc.ents))
			}
		}
		if len(out) > 30 {
			break
		}
	}
	return out
}
