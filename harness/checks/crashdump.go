package checks

import (
	"fmt"
	"os"

	"verifharness/internal/core"
	"verifharness/internal/crashlab"
	"verifharness/internal/rec"
)

// CrashDump is a triage aid: re-runs history idx of a crash-lab property and prints the trace, the parsed log and the
// recovered-versus-expected tables at crash point k (k <= 0: only the trace).
func CrashDump(prop string, seed int64, tier string, idx, k, tear int) {
	env := &core.Env{ID: prop, Tier: tier, Seed: seed, TmpDir: os.TempDir()}
	if only := os.Getenv("VERIF_DUMP_IMG_ONLY"); only != "" {
		dbb, _ := os.ReadFile(only + ".db")
		lgb, _ := os.ReadFile(only + ".log")
		im := &rec.Image{DB: dbb, Log: lgb}
		rc := crashlab.Recover(env.TmpDir+"/dump_only", im, 64, []crashlab.TableDef{{Name: "h0"}}, false)
		fmt.Fprintf(os.Stderr, "failure=%q tables=%d rows\n", rc.Failure, len(rc.Tables["h0"]))
		return
	}
	r := env.Rand(idx)
	bias := "commit"
	if prop == "C02" || (prop == "C01" && idx%3 == 2) {
		bias = "loser"
	}
	p := crashParams(r, env, bias)
	h, fatal := crashlab.Run(r, fmt.Sprintf("%s/dump_hist_%d", env.TmpDir, idx), p)
	w := os.Stderr
	fmt.Fprintf(w, "params %+v fatal=%q livediff=%q early=%q setupEnd=%d\n", p, fatal, h.LiveDiff, h.EndedEarly, h.SetupEnd)
	for _, s := range h.StmtLog {
		fmt.Fprintln(w, "  ", s)
	}
	for i, e := range h.Events {
		if i+1 == k {
			fmt.Fprintln(w, "---- crash point after this event ----")
		}
		fmt.Fprintf(w, "%4d %s", i+1, eventDesc(&e))
		if e.Kind == rec.WriteLog {
			recs, rest, prob := rec.ParseLog(e.Data)
			fmt.Fprintf(w, " rest=%d %s", rest, prob)
			for _, lr := range recs {
				fmt.Fprintf(w, "\n        %v", lr)
			}
		}
		if e.Kind == rec.WritePage && len(e.Data) >= 8 {
			fmt.Fprintf(w, " lsn-field=%d", int32(uint32(e.Data[4])|uint32(e.Data[5])<<8|uint32(e.Data[6])<<16|uint32(e.Data[7])<<24))
		}
		fmt.Fprintln(w)
	}
	for _, t := range h.Txns {
		fmt.Fprintf(w, "T%d begin=%d commitCall=%d commitRet=%d abortRet=%d ops=%d auto=%v conflict=%v\n", t.N, t.Begin, t.CommitCall, t.CommitRet, t.AbortRet, len(t.Ops), t.Auto, t.Conflict)
	}
	if k <= 0 {
		return
	}
	im := &rec.Image{}
	for i := 0; i < k; i++ {
		im.Apply(&h.Events[i])
	}
	if tear > 0 {
		im.ApplyTorn(&h.Events[k], tear)
		recs, rest, prob := rec.ParseLog(im.Log)
		fmt.Fprintf(w, "torn image log: %d records, rest=%d %s; last records:\n", len(recs), rest, prob)
		for _, lr := range recs[max(0, len(recs)-5):] {
			fmt.Fprintf(w, "   %v\n", lr)
		}
	}
	if keep := os.Getenv("VERIF_KEEP_IMG"); keep != "" {
		im.WriteFiles(keep)
	}
	path := fmt.Sprintf("%s/dump_img_%d", env.TmpDir, idx)
	rc := crashlab.Recover(path, im, p.MemKB, p.Tables, true)
	if rc.DB != nil {
		pg := rc.DB.BPM.FetchPage(0)
		if pg != nil {
			fmt.Fprintf(w, "page 0 after restart: % x\n", pg.Data()[:48])
			rc.DB.BPM.UnpinPage(0, false)
		} else {
			fmt.Fprintf(w, "page 0 after restart: nil\n")
		}
		fmt.Fprintf(w, "image page 0: % x\n", im.DB[:48])
		for _, t := range rc.DB.Cat.GetAllTables() {
			fmt.Fprintf(w, "catalog after restart: table %s oid %d\n", *t.GetTableName(), t.OID())
		}
	}
	v := h.Judge(k, rc)
	fmt.Fprintf(w, "verdict: ok=%v matched=%s\n C01=%v\n C02=%v\n failure=%q battery=%q\n", v.OK, v.Matched, v.C01, v.C02, rc.Failure, rc.Battery)
	base, inc, losers := h.Expected(k)
	for _, t := range p.Tables {
		fmt.Fprintf(w, "table %s expected(base):\n", t.Name)
		for id, row := range base[t.Name] {
			fmt.Fprintf(w, "   %d: %v\n", id, row)
		}
		fmt.Fprintf(w, "table %s recovered:\n", t.Name)
		for _, row := range rc.Tables[t.Name] {
			fmt.Fprintf(w, "   %v\n", row)
		}
	}
	for _, t := range inc {
		fmt.Fprintf(w, "in-commit T%d\n", t.N)
	}
	for _, t := range losers {
		fmt.Fprintf(w, "loser T%d\n", t.N)
	}
	rc.Close(path)
}
