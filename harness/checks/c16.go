package checks

// C16 - row locks follow the shared/exclusive compatibility rules until transaction end.
//
// Part 1 (exhaustive inside bounds): 3 transactions x 2 rows, alphabet of 21 symbols {S, X, Upgrade} x (txn,row) +
// ReleaseAll(txn); Upgrade is offered only where the MODEL says the transaction holds S and not X on that row (calling it
// otherwise panics, which is the documented contract). Every sequence of the stated depth (quick 5, thorough 6) is replayed on a
// FRESH LockManager / TransactionManager; shorter sequences are their prefixes. Cases = the valid two-symbol prefixes.
// After every step: returned bool == model decision; IsExclusiveLocked / exclusive lock set == model; IsSharedLocked / shared
// lock set == model wherever the transaction does not hold X (what the shared set says under an exclusive lock is don't-care:
// the property only speaks about which locks are held).
// Part 2: state x symbol transition coverage for every reachable abstract state along up to three shortest paths.
// Part 3: random walks with more transactions / rows, including the engine's "upgrade again while already exclusive" call.
// Part 4: goroutine stress with an atomic ownership witness (overlaps), a may-hold witness (unjustified denials),
// re-requests of held locks, and a quiescent "everything released" probe.
//
// The lock manager is driven the way the engine drives it: transactions from access.NewTransaction registered with
// TransactionManager.Begin, a denied request makes the caller mark the transaction ABORTED (the lock manager itself never does),
// locks are released only through TransactionManager.Commit / Abort (-> releaseLocks -> LockManager.Unlock); a released
// transaction slot continues with a new transaction id.

import (
	"encoding/json"
	"fmt"
	"math/rand"
	"runtime"
	"sort"
	"strings"
	"sync"
	"sync/atomic"
	"time"

	"github.com/ryogrid/SamehadaDB/lib/storage/access"
	"github.com/ryogrid/SamehadaDB/lib/storage/page"
	"github.com/ryogrid/SamehadaDB/lib/types"

	"verifharness/internal/core"
)

const (
	c16MaxT = 8
	c16MaxR = 8
)

const (
	c16S = iota
	c16X
	c16U
	c16Rel
)

type c16Sym struct{ K, T, R uint8 }

func (s c16Sym) String() string {
	switch s.K {
	case c16S:
		return fmt.Sprintf("S(t%d,r%d)", s.T, s.R)
	case c16X:
		return fmt.Sprintf("X(t%d,r%d)", s.T, s.R)
	case c16U:
		return fmt.Sprintf("U(t%d,r%d)", s.T, s.R)
	}
	return fmt.Sprintf("R(t%d)", s.T)
}

func c16ParseSym(s string) (c16Sym, bool) {
	var t, r int
	if n, _ := fmt.Sscanf(s, "R(t%d)", &t); n == 1 {
		return c16Sym{c16Rel, uint8(t), 0}, t < c16MaxT
	}
	for k, p := range []string{"S", "X", "U"} {
		if n, _ := fmt.Sscanf(s, p+"(t%d,r%d)", &t, &r); n == 2 {
			return c16Sym{uint8(k), uint8(t), uint8(r)}, t < c16MaxT && r < c16MaxR
		}
	}
	return c16Sym{}, false
}

func c16SeqStrings(seq []c16Sym) []string {
	out := make([]string, len(seq))
	for i, s := range seq {
		out[i] = s.String()
	}
	return out
}

// c16Alphabet: all symbols for nT transactions x nR rows (for 3 x 2: 18 + 3 = 21).
func c16Alphabet(nT, nR int) []c16Sym {
	var a []c16Sym
	for t := 0; t < nT; t++ {
		for r := 0; r < nR; r++ {
			for k := c16S; k <= c16U; k++ {
				a = append(a, c16Sym{uint8(k), uint8(t), uint8(r)})
			}
		}
	}
	for t := 0; t < nT; t++ {
		a = append(a, c16Sym{c16Rel, uint8(t), 0})
	}
	return a
}

// ---------------------------------------------------------------------------------------------
// the model: which transaction holds which lock. s = shared lock acquired while not exclusive; x = exclusive.

type c16Model struct {
	nT, nR int
	s, x   [c16MaxT][c16MaxR]bool
}

func (m *c16Model) holdsAny(t, r int) bool { return m.s[t][r] || m.x[t][r] }

func (m *c16Model) otherX(t, r int) bool {
	for o := 0; o < m.nT; o++ {
		if o != t && m.x[o][r] {
			return true
		}
	}
	return false
}

func (m *c16Model) otherAny(t, r int) bool {
	for o := 0; o < m.nT; o++ {
		if o != t && (m.s[o][r] || m.x[o][r]) {
			return true
		}
	}
	return false
}

// valid: is the symbol offered in this state (raw alphabet)? Upgrade needs S and not X.
func (m *c16Model) valid(y c16Sym) bool {
	if y.K == c16U {
		return m.s[y.T][y.R] && !m.x[y.T][y.R]
	}
	return true
}

// grant: the compatibility rule of the property statement.
func (m *c16Model) grant(y c16Sym) bool {
	switch y.K {
	case c16S:
		return !m.otherX(int(y.T), int(y.R)) // shared with shared only
	case c16X, c16U:
		return !m.otherAny(int(y.T), int(y.R)) // only when no other transaction holds any lock on the row
	}
	return true
}

func (m *c16Model) apply(y c16Sym) bool {
	t, r := int(y.T), int(y.R)
	if y.K == c16Rel {
		for i := 0; i < m.nR; i++ {
			m.s[t][i], m.x[t][i] = false, false
		}
		return true
	}
	g := m.grant(y)
	if !g {
		return false // a denied request leaves every lock unchanged
	}
	switch y.K {
	case c16S:
		if !m.x[t][r] {
			m.s[t][r] = true
		}
	case c16X, c16U:
		m.x[t][r] = true
	}
	return true
}

func (m *c16Model) code() uint32 {
	var c uint32
	for t := 0; t < m.nT; t++ {
		for r := 0; r < m.nR; r++ {
			c <<= 2
			if m.s[t][r] {
				c |= 1
			}
			if m.x[t][r] {
				c |= 2
			}
		}
	}
	return c
}

func c16CodeString(c uint32, nT, nR int) string {
	b := make([]byte, 0, nT*nR+nT)
	for t := 0; t < nT; t++ {
		if t > 0 {
			b = append(b, '/')
		}
		for r := 0; r < nR; r++ {
			sh := uint((nT*nR - 1 - (t*nR + r)) * 2)
			b = append(b, "-SXB"[(c>>sh)&3]) // B = shared then upgraded / exclusive on top of shared
		}
	}
	return string(b)
}

// conflictTag: the input-side trigger of a step, from the model state before it.
func (m *c16Model) conflictTag(y c16Sym) string {
	t, r := int(y.T), int(y.R)
	switch y.K {
	case c16Rel:
		return "release"
	case c16S:
		switch {
		case m.otherX(t, r):
			return "shared-vs-other-exclusive"
		case m.holdsAny(t, r):
			return "shared-rerequest"
		case m.otherAny(t, r):
			return "shared-with-other-shared"
		}
		return "shared-uncontended"
	}
	p := "exclusive"
	if y.K == c16U {
		p = "upgrade"
	}
	switch {
	case m.otherX(t, r):
		return p + "-vs-other-exclusive"
	case m.otherAny(t, r):
		return p + "-vs-other-shared"
	case m.x[t][r]:
		return p + "-rerequest"
	case m.s[t][r]:
		return p + "-own-shared"
	}
	return p + "-uncontended"
}

// ---------------------------------------------------------------------------------------------
// the system under test, driven like the engine drives it

type c16Viol struct {
	kind, tag, detail string
	step              int
}

type c16Sys struct {
	m      c16Model
	lm     *access.LockManager
	tm     *access.TransactionManager
	txns   [c16MaxT]*access.Transaction
	rids   [c16MaxR]page.RID
	nextID int32
	// observations
	calls, grants, denials, releases, commits, aborts int64
	stateChangedByLM                                  int64
	sharedMarkUnderX, sharedMarkUnderXAsPredicted     int64
	evSS, evSX, evUp                                  bool
}

func c16NewSys(nT, nR int) *c16Sys {
	s := &c16Sys{}
	s.m.nT, s.m.nR = nT, nR
	s.lm = access.NewLockManager(access.STRICT, access.SS2PLMode)
	s.tm = access.NewTransactionManager(s.lm, c15Log()) // log manager with logging off
	for r := 0; r < nR; r++ {
		s.rids[r] = page.RID{PageID: types.PageID(3 + r/2), SlotNum: uint32(r % 2)}
	}
	for t := 0; t < nT; t++ {
		s.begin(t)
	}
	return s
}

func (s *c16Sys) begin(t int) {
	s.nextID++
	s.txns[t] = s.tm.Begin(access.NewTransaction(types.TxnID(s.nextID)))
}

// step applies one symbol to the implementation and the model and compares.
func (s *c16Sys) step(y c16Sym, i int) *c16Viol {
	t, r := int(y.T), int(y.R)
	tag := s.m.conflictTag(y)
	if y.K == c16Rel {
		txn := s.txns[t]
		if txn.GetState() == access.ABORTED {
			s.tm.Abort(nil, txn)
			s.aborts++
		} else {
			s.tm.Commit(nil, txn)
			s.commits++
		}
		s.releases++
		s.m.apply(y)
		s.begin(t)
		return s.checkSets(y, i, tag)
	}
	txn := s.txns[t]
	before := txn.GetState()
	exp := s.m.grant(y)
	var got bool
	switch y.K {
	case c16S:
		got = s.lm.LockShared(txn, &s.rids[r])
	case c16X:
		got = s.lm.LockExclusive(txn, &s.rids[r])
	case c16U:
		got = s.lm.LockUpgrade(txn, &s.rids[r])
	}
	s.calls++
	if txn.GetState() != before {
		s.stateChangedByLM++
	}
	if got != exp {
		if got {
			return &c16Viol{"grant", tag, fmt.Sprintf("step %d %s was granted but the model says it conflicts (%s)", i, y, tag), i}
		}
		return &c16Viol{"deny", tag, fmt.Sprintf("step %d %s was denied but nothing the model knows conflicts (%s)", i, y, tag), i}
	}
	if got {
		s.grants++
		if y.K == c16S && s.m.otherAny(t, r) {
			s.evSS = true
		}
	} else {
		s.denials++
		if y.K == c16U {
			s.evUp = true
		} else {
			s.evSX = true
		}
		txn.SetState(access.ABORTED) // what the engine's callers (TablePage / TableHeap) do on a denied request
	}
	s.m.apply(y)
	return s.checkSets(y, i, tag)
}

func (s *c16Sys) checkSets(y c16Sym, i int, tag string) *c16Viol {
	for t := 0; t < s.m.nT; t++ {
		txn := s.txns[t]
		xs, ss := txn.GetExclusiveLockSet(), txn.GetSharedLockSet()
		for r := 0; r < s.m.nR; r++ {
			rid := &s.rids[r]
			mx, ms := s.m.x[t][r], s.m.s[t][r]
			gx, gs := txn.IsExclusiveLocked(rid), txn.IsSharedLocked(rid)
			if gx != mx {
				return &c16Viol{"lockset", tag, fmt.Sprintf("after step %d %s: t%d.IsExclusiveLocked(r%d)=%v, model %v", i, y, t, r, gx, mx), i}
			}
			if c16Contains(xs, *rid) != mx {
				return &c16Viol{"lockset", tag, fmt.Sprintf("after step %d %s: exclusive lock set of t%d contains r%d = %v, model %v", i, y, t, r, !mx, mx), i}
			}
			if !mx {
				if gs != ms {
					return &c16Viol{"lockset", tag, fmt.Sprintf("after step %d %s: t%d.IsSharedLocked(r%d)=%v, model %v", i, y, t, r, gs, ms), i}
				}
				if c16Contains(ss, *rid) != ms {
					return &c16Viol{"lockset", tag, fmt.Sprintf("after step %d %s: shared lock set of t%d contains r%d = %v, model %v", i, y, t, r, !ms, ms), i}
				}
			} else {
				s.sharedMarkUnderX++
				if gs == ms {
					s.sharedMarkUnderXAsPredicted++
				}
			}
		}
		if len(xs) > s.m.nR || len(ss) > s.m.nR {
			return &c16Viol{"lockset", tag, fmt.Sprintf("after step %d %s: lock sets of t%d hold %d+%d entries for %d rows", i, y, t, len(ss), len(xs), s.m.nR), i}
		}
	}
	return nil
}

func c16Contains(l []page.RID, r page.RID) bool {
	for _, x := range l {
		if x == r {
			return true
		}
	}
	return false
}

// absorb adds the observation counters of a finished system to an accumulator (flushed once per case).
func (a *c16Sys) absorb(s *c16Sys) {
	a.calls += s.calls
	a.grants += s.grants
	a.denials += s.denials
	a.releases += s.releases
	a.commits += s.commits
	a.aborts += s.aborts
	a.stateChangedByLM += s.stateChangedByLM
	a.sharedMarkUnderX += s.sharedMarkUnderX
	a.sharedMarkUnderXAsPredicted += s.sharedMarkUnderXAsPredicted
}

func c16Flush(res *core.CaseResult, s *c16Sys) {
	res.Add("lock_calls", s.calls)
	res.Add("grants", s.grants)
	res.Add("denials", s.denials)
	res.Add("releases", s.releases)
	res.Add("releases_by_commit", s.commits)
	res.Add("releases_by_abort", s.aborts)
	res.Add("txn_state_changed_inside_lock_manager", s.stateChangedByLM)
	res.Add("shared_mark_under_exclusive_observed", s.sharedMarkUnderX)
	res.Add("shared_mark_under_exclusive_as_predicted", s.sharedMarkUnderXAsPredicted)
}

// c16RunSeq replays one sequence on a fresh system. states (optional) collects abstract states.
func c16RunSeq(nT, nR int, seq []c16Sym, res *core.CaseResult, states map[uint32]bool) (*c16Viol, *c16Sys) {
	s := c16NewSys(nT, nR)
	for i, y := range seq {
		if !s.m.valid(y) {
			return &c16Viol{"harness", "", fmt.Sprintf("step %d %s is not offered in this state", i, y), i}, s
		}
		if v := s.step(y, i); v != nil {
			c16Flush(res, s)
			return v, s
		}
		if states != nil {
			states[s.m.code()] = true
		}
	}
	c16Flush(res, s)
	return nil, s
}

// c16Try replays a sequence quietly; ok=false when a symbol is outside the calling contract in its state.
func c16Try(nT, nR int, seq []c16Sym) (v *c16Viol, ok bool) {
	defer func() {
		if p := recover(); p != nil {
			v, ok = &c16Viol{"panic", "", fmt.Sprint(p), len(seq) - 1}, true
		}
	}()
	s := c16NewSys(nT, nR)
	for i, y := range seq {
		if !s.m.valid(y) && !(y.K == c16U && s.m.x[y.T][y.R] && s.txns[y.T].IsSharedLocked(&s.rids[y.R])) {
			return nil, false
		}
		if v := s.step(y, i); v != nil {
			return v, true
		}
	}
	return nil, true
}

// c16Minimise drops symbols before the failing step while a violation of the same kind remains at the last step.
func c16Minimise(nT, nR int, seq []c16Sym, kind string) ([]c16Sym, *c16Viol) {
	cur := append([]c16Sym(nil), seq...)
	var last *c16Viol
	for changed := true; changed; {
		changed = false
		for i := 0; i < len(cur)-1; i++ {
			c := append(append([]c16Sym(nil), cur[:i]...), cur[i+1:]...)
			if v, ok := c16Try(nT, nR, c); ok && v != nil && v.kind == kind && v.step == len(c)-1 {
				cur, last, changed = c, v, true
				break
			}
		}
	}
	return cur, last
}

func c16Report(res *core.CaseResult, nT, nR int, seq []c16Sym, v *c16Viol, part string) {
	if len(res.Violations) >= 5 {
		return
	}
	if v.step+1 < len(seq) {
		seq = seq[:v.step+1]
	}
	if m, mv := c16Minimise(nT, nR, seq, v.kind); mv != nil && len(m) < len(seq) {
		mv.detail += fmt.Sprintf(" [reduced from a %d-step sequence]", len(seq))
		seq, v = m, &c16Viol{mv.kind, mv.tag, mv.detail, mv.step}
	}
	res.Violate(v.kind, []string{v.tag, part}, map[string]any{"txns": nT, "rows": nR, "seq": c16SeqStrings(seq)}, "%s", v.detail)
}

// ---------------------------------------------------------------------------------------------
// part 1: exhaustive enumeration

var c16Prefixes = func() [][2]c16Sym {
	var out [][2]c16Sym
	al := c16Alphabet(3, 2)
	var m0 c16Model
	m0.nT, m0.nR = 3, 2
	for _, a := range al {
		if !m0.valid(a) {
			continue
		}
		m1 := m0
		m1.apply(a)
		for _, b := range al {
			if m1.valid(b) {
				out = append(out, [2]c16Sym{a, b})
			}
		}
	}
	return out
}()

func c16Depth(env *core.Env) int {
	if env.Thorough() {
		return 6
	}
	return 5
}

func c16Exhaustive(env *core.Env, k int, res *core.CaseResult) {
	depth := c16Depth(env)
	al := c16Alphabet(3, 2)
	pre := c16Prefixes[k]
	seq := make([]c16Sym, depth)
	seq[0], seq[1] = pre[0], pre[1]
	var m c16Model
	m.nT, m.nR = 3, 2
	m.apply(seq[0])
	m.apply(seq[1])
	var stateSeen [4096]bool
	reported := map[string]bool{}
	var nSeq, nAll3, nSS, nSX, nUp int64
	acc := &c16Sys{}
	var rec func(d int, m c16Model)
	rec = func(d int, m c16Model) {
		if d == depth {
			nSeq++
			s := c16NewSys(3, 2)
			for i, y := range seq {
				if v := s.step(y, i); v != nil {
					key := fmt.Sprint(seq[:i+1])
					if !reported[key] {
						reported[key] = true
						c16Report(res, 3, 2, seq, v, "exhaustive")
					}
					res.Add("mismatching_sequences", 1)
					break
				}
				stateSeen[s.m.code()] = true
			}
			acc.absorb(s)
			if s.evSS {
				nSS++
			}
			if s.evSX {
				nSX++
			}
			if s.evUp {
				nUp++
			}
			if s.evSS && s.evSX && s.evUp {
				nAll3++
			}
			return
		}
		for _, y := range al {
			if !m.valid(y) {
				continue
			}
			seq[d] = y
			m2 := m
			m2.apply(y)
			rec(d+1, m2)
		}
	}
	rec(2, m)
	c16Flush(res, acc)
	res.Add("sequences", nSeq)
	res.Add("exhaustive_sequences", nSeq)
	res.Add("sequences_with_shared_shared", nSS)
	res.Add("sequences_with_shared_exclusive_conflict", nSX)
	res.Add("sequences_with_upgrade_conflict", nUp)
	res.Add("sequences_with_all_three", nAll3)
	for c, ok := range stateSeen {
		if ok {
			res.Seen("abstract_states_3x2", c16CodeString(uint32(c), 3, 2))
		}
	}
	res.Nontrivial = nAll3 > 0
	res.Key = fmt.Sprintf("exh-d%d-%s-%s", depth, pre[0], pre[1])
	if k < 2 {
		res.Sample = map[string]any{"part": "exhaustive", "prefix": c16SeqStrings(pre[:]), "depth": depth, "sequences": nSeq, "last_sequence": c16SeqStrings(seq)}
	}
}

// ---------------------------------------------------------------------------------------------
// part 2: every reachable abstract state x every symbol, along up to three different shortest paths

func c16Coverage(env *core.Env, res *core.CaseResult) {
	al := c16Alphabet(3, 2)
	type node struct {
		m     c16Model
		paths [][]c16Sym
		depth int
	}
	var m0 c16Model
	m0.nT, m0.nR = 3, 2
	nodes := map[uint32]*node{m0.code(): {m0, [][]c16Sym{{}}, 0}}
	layer := []uint32{m0.code()}
	for d := 0; len(layer) > 0; d++ {
		var next []uint32
		for _, c := range layer {
			n := nodes[c]
			for _, p := range n.paths {
				for _, y := range al {
					if !n.m.valid(y) {
						continue
					}
					m2 := n.m
					m2.apply(y)
					c2 := m2.code()
					np := append(append([]c16Sym(nil), p...), y)
					if q, ok := nodes[c2]; !ok {
						nodes[c2] = &node{m2, [][]c16Sym{np}, d + 1}
						next = append(next, c2)
					} else if q.depth == d+1 && len(q.paths) < 3 {
						dup := false
						for _, e := range q.paths {
							if fmt.Sprint(e) == fmt.Sprint(np) {
								dup = true
							}
						}
						if !dup {
							q.paths = append(q.paths, np)
						}
					}
				}
			}
		}
		layer = next
	}
	codes := make([]uint32, 0, len(nodes))
	for c := range nodes {
		codes = append(codes, c)
	}
	sort.Slice(codes, func(i, j int) bool { return codes[i] < codes[j] })
	states := map[uint32]bool{}
	var maxDepth int
	for _, c := range codes {
		n := nodes[c]
		if n.depth > maxDepth {
			maxDepth = n.depth
		}
		for _, p := range n.paths {
			for _, y := range al {
				if !n.m.valid(y) {
					continue
				}
				seq := append(append([]c16Sym(nil), p...), y)
				res.Add("sequences", 1)
				res.Add("transition_coverage_sequences", 1)
				if v, _ := c16RunSeq(3, 2, seq, res, states); v != nil {
					c16Report(res, 3, 2, seq, v, "transition-coverage")
				}
			}
		}
	}
	res.Add("model_states_reachable_3x2", int64(len(nodes)))
	res.Add("model_states_max_shortest_path", int64(maxDepth))
	for c := range states {
		res.Seen("abstract_states_3x2", c16CodeString(c, 3, 2))
	}
	res.Nontrivial = true
	res.Key = "transition-coverage"
	res.Sample = map[string]any{"part": "transition coverage", "reachable_states": len(nodes), "deepest_state_needs_steps": maxDepth}
}

// ---------------------------------------------------------------------------------------------
// part 3: random walks over larger shapes, including the engine's repeated-upgrade call

func c16Walk(env *core.Env, k, idx int, res *core.CaseResult) {
	rng := env.Rand(idx)
	walks, steps := 150, 300
	if env.Thorough() {
		walks = 1500
	}
	var shapes []string
	for w := 0; w < walks; w++ {
		nT, nR := 2+rng.Intn(5), 1+rng.Intn(5)
		al := c16Alphabet(nT, nR)
		s := c16NewSys(nT, nR)
		var seq []c16Sym
		if w < 3 {
			shapes = append(shapes, fmt.Sprintf("%dx%d", nT, nR))
		}
		for i := 0; i < steps; i++ {
			var y c16Sym
			for {
				y = al[rng.Intn(len(al))]
				if y.K == c16Rel && rng.Intn(3) != 0 {
					continue // keep transactions alive long enough to pile up locks
				}
				if s.m.valid(y) {
					break
				}
				// the engine calls LockUpgrade whenever the transaction's shared set has the row, also when it is
				// exclusive already (second update of a row first read): offer that call under the engine's own guard
				if y.K == c16U && s.m.x[y.T][y.R] && s.txns[y.T].IsSharedLocked(&s.rids[y.R]) {
					res.Add("upgrade_calls_while_already_exclusive", 1)
					break
				}
			}
			seq = append(seq, y)
			if v := s.step(y, i); v != nil {
				c16Report(res, nT, nR, seq, v, "walk")
				break
			}
		}
		c16Flush(res, s)
		res.Add("sequences", 1)
		res.Add("walk_sequences", 1)
		if s.evSS && s.evSX && s.evUp {
			res.Nontrivial = true
			res.Add("sequences_with_all_three", 1)
		}
	}
	res.Key = fmt.Sprintf("walk-%d", k)
	if k == 0 {
		res.Sample = map[string]any{"part": "random walks", "walks": walks, "steps_each": steps, "first_shapes_txns_x_rows": shapes}
	}
}

// ---------------------------------------------------------------------------------------------
// part 4: goroutine stress with ownership and may-hold witnesses

type c16Row struct {
	xOwner atomic.Int64  // witness: goroutine (1-based) that marked itself exclusive owner; set AFTER grant, cleared BEFORE release
	sMask  atomic.Uint64 // witness: goroutines that marked themselves shared holders; same discipline
	mayS   atomic.Uint64 // superset: set BEFORE a shared request, cleared AFTER the release returned
	mayX   atomic.Uint64 // superset for exclusive / upgrade requests
	verS   atomic.Uint64 // incremented before every change of mayS
	verX   atomic.Uint64
	_      [64]byte
}

func c16Or(a *atomic.Uint64, bit uint64) {
	for {
		o := a.Load()
		if a.CompareAndSwap(o, o|bit) {
			return
		}
	}
}

func c16AndNot(a *atomic.Uint64, bit uint64) {
	for {
		o := a.Load()
		if a.CompareAndSwap(o, o&^bit) {
			return
		}
	}
}

type c16StressCfg struct {
	G, Rows, Txns, Procs int
}

func c16StressCfgOf(env *core.Env, k int, rng *rand.Rand) c16StressCfg {
	cfg := c16StressCfg{G: []int{8, 12, 16, 24, 32}[rng.Intn(5)], Rows: 2 + rng.Intn(3), Txns: 20000, Procs: 16}
	if k%4 == 3 {
		cfg.Rows = cfg.G // low contention: uncontended requests and decidable denials
	}
	if env.Thorough() {
		cfg.Txns = 500000
		cfg.Procs = []int{2, 4, 16}[k%3]
	}
	return cfg
}

func c16Stress(env *core.Env, k, idx int, res *core.CaseResult) {
	rng := env.Rand(idx)
	cfg := c16StressCfgOf(env, k, rng)
	old := runtime.GOMAXPROCS(cfg.Procs)
	defer runtime.GOMAXPROCS(old)

	lm := access.NewLockManager(access.STRICT, access.SS2PLMode)
	tm := access.NewTransactionManager(lm, c15Log())
	rows := make([]c16Row, cfg.Rows)
	rids := make([]page.RID, cfg.Rows)
	for r := range rids {
		rids[r] = page.RID{PageID: types.PageID(5 + r/3), SlotNum: uint32(r % 3)}
	}
	var mu sync.Mutex
	type viol struct{ kind, tag, detail string }
	var viols []viol
	var stop atomic.Bool
	report := func(kind, tag, format string, a ...any) {
		mu.Lock()
		if len(viols) < 5 {
			viols = append(viols, viol{kind, tag, fmt.Sprintf(format, a...)})
		}
		mu.Unlock()
		stop.Store(true)
	}
	var cnt struct {
		txns, calls, grants, denials, denialsDecidable, rereq, commits, aborts, sharedCoexist, upgrades, upgradeDenied, guardChecks, decided atomic.Int64
	}
	seeds := make([]int64, cfg.G)
	for g := range seeds {
		seeds[g] = rng.Int63()
	}
	var wg sync.WaitGroup
	for g := 0; g < cfg.G; g++ {
		wg.Add(1)
		go func(g int) {
			defer wg.Done()
			defer func() {
				if p := recover(); p != nil {
					report("panic", "concurrent", "goroutine %d: %v", g, p)
				}
			}()
			rng := rand.New(rand.NewSource(seeds[g]))
			me := int64(g + 1)
			bit := uint64(1) << uint(g)
			heldS := make([]bool, cfg.Rows)
			heldX := make([]bool, cfg.Rows)
			touched := make([]bool, cfg.Rows)
			for n := 0; n < cfg.Txns && !stop.Load(); n++ {
				id := types.TxnID(1 + g*256 + n%256) // unique among live transactions; bounded so the engine's global txn map stays small
				txn := tm.Begin(access.NewTransaction(id))
				cnt.txns.Add(1)
				for r := range heldS {
					heldS[r], heldX[r], touched[r] = false, false, false
				}
				nOps := 1 + rng.Intn(4)
				aborted := false
				for o := 0; o < nOps && !aborted; o++ {
					r := rng.Intn(cfg.Rows)
					rid := &rids[r]
					row := &rows[r]
					write := rng.Intn(100) < 40
					if rng.Intn(8) == 0 {
						runtime.Gosched()
					}
					// the engine's guards read the transaction's own lock sets
					gs, gx := txn.IsSharedLocked(rid), txn.IsExclusiveLocked(rid)
					cnt.guardChecks.Add(1)
					if gx != heldX[r] || (!heldX[r] && gs != heldS[r]) {
						report("lockset", "concurrent", "goroutine %d txn %d row %d: lock sets say shared=%v exclusive=%v, granted so far shared=%v exclusive=%v", g, id, r, gs, gx, heldS[r], heldX[r])
						break
					}
					touched[r] = true
					if !write {
						if heldS[r] || heldX[r] {
							// a request for a lock already held must succeed
							cnt.rereq.Add(1)
							if !lm.LockShared(txn, rid) {
								report("deny", "shared-rerequest", "goroutine %d txn %d: LockShared on row %d denied although the transaction holds a lock on it", g, id, r)
							}
							continue
						}
						row.verS.Add(1)
						c16Or(&row.mayS, bit)
						v1, m1 := row.verX.Load(), row.mayX.Load()&^bit
						ok := lm.LockShared(txn, rid)
						m2, v2 := row.mayX.Load()&^bit, row.verX.Load()
						cnt.calls.Add(1)
						if m1 == 0 && m2 == 0 && v1 == v2 {
							cnt.decided.Add(1) // nobody else was near the row: a denial here would be flagged
						}
						if ok {
							cnt.grants.Add(1)
							heldS[r] = true
							c16Or(&row.sMask, bit)
							if xo := row.xOwner.Load(); xo != 0 && xo != me {
								report("overlap", "shared-vs-other-exclusive", "row %d: goroutine %d holds a granted shared lock while goroutine %d is marked exclusive owner", r, g, xo-1)
							}
							if row.sMask.Load()&^bit != 0 {
								cnt.sharedCoexist.Add(1)
							}
						} else {
							cnt.denials.Add(1)
							if m1 == 0 && m2 == 0 && v1 == v2 {
								cnt.denialsDecidable.Add(1)
								report("deny", "shared-uncontended", "row %d: shared request of goroutine %d denied although no other transaction requested or held an exclusive lock during the call", r, g)
							}
							aborted = true
						}
						continue
					}
					// write path
					if heldX[r] && !gs {
						cnt.rereq.Add(1)
						if !lm.LockExclusive(txn, rid) {
							report("deny", "exclusive-rerequest", "goroutine %d txn %d: LockExclusive on row %d denied although the transaction holds it", g, id, r)
						}
						continue
					}
					row.verX.Add(1)
					c16Or(&row.mayX, bit)
					v1s, v1x := row.verS.Load(), row.verX.Load()
					m1 := (row.mayS.Load() | row.mayX.Load()) &^ bit
					var ok bool
					tag := "exclusive"
					if gs { // shared set has the row (also after an earlier upgrade): the engine calls LockUpgrade
						tag = "upgrade"
						cnt.upgrades.Add(1)
						ok = lm.LockUpgrade(txn, rid)
					} else {
						ok = lm.LockExclusive(txn, rid)
					}
					m2 := (row.mayS.Load() | row.mayX.Load()) &^ bit
					v2s, v2x := row.verS.Load(), row.verX.Load()
					cnt.calls.Add(1)
					if m1 == 0 && m2 == 0 && v1s == v2s && v1x == v2x {
						cnt.decided.Add(1)
					}
					if ok {
						cnt.grants.Add(1)
						heldX[r] = true
						if prev := row.xOwner.Swap(me); prev != 0 && prev != me {
							report("overlap", tag+"-vs-other-exclusive", "row %d: goroutine %d was granted %s while goroutine %d is marked exclusive owner", r, g, tag, prev-1)
						}
						if sm := row.sMask.Load() &^ bit; sm != 0 {
							report("overlap", tag+"-vs-other-shared", "row %d: goroutine %d was granted %s while shared holders %#x are marked", r, g, tag, sm)
						}
					} else {
						cnt.denials.Add(1)
						if heldX[r] {
							report("deny", tag+"-rerequest", "goroutine %d txn %d: %s on row %d denied although the transaction is exclusive already", g, id, tag, r)
						}
						if tag == "upgrade" {
							cnt.upgradeDenied.Add(1)
						}
						if m1 == 0 && m2 == 0 && v1s == v2s && v1x == v2x {
							cnt.denialsDecidable.Add(1)
							report("deny", tag+"-uncontended", "row %d: %s request of goroutine %d denied although no other transaction requested or held any lock during the call", r, tag, g)
						}
						aborted = true
					}
				}
				// end of transaction: clear the witness marks BEFORE the release ...
				for r := range rows {
					if heldX[r] {
						rows[r].xOwner.CompareAndSwap(me, 0)
					}
					if heldS[r] {
						c16AndNot(&rows[r].sMask, bit)
					}
				}
				if aborted {
					txn.SetState(access.ABORTED)
					tm.Abort(nil, txn)
					cnt.aborts.Add(1)
				} else {
					tm.Commit(nil, txn)
					cnt.commits.Add(1)
				}
				// ... and the may-hold marks AFTER it
				for r := range rows {
					if touched[r] {
						rows[r].verS.Add(1)
						c16AndNot(&rows[r].mayS, bit)
						rows[r].verX.Add(1)
						c16AndNot(&rows[r].mayX, bit)
					}
				}
			}
		}(g)
	}
	wg.Wait()
	// quiescent probe: every transaction has ended, so a new transaction must get every row exclusively
	if len(viols) == 0 {
		probe := tm.Begin(access.NewTransaction(types.TxnID(1 << 20)))
		for r := range rids {
			if !lm.LockExclusive(probe, &rids[r]) {
				report("deny", "after-release", "row %d: exclusive request denied after every transaction has ended (a lock outlived its transaction)", r)
			}
		}
		tm.Commit(nil, probe)
		probe2 := tm.Begin(access.NewTransaction(types.TxnID(1<<20 + 1)))
		for r := range rids {
			if !lm.LockShared(probe2, &rids[r]) {
				report("deny", "after-release", "row %d: shared request denied after the probing transaction has ended", r)
			}
		}
		tm.Commit(nil, probe2)
		res.Add("stress_quiescent_probes", int64(2*len(rids)))
	}
	for _, v := range viols {
		res.Violate(v.kind, []string{v.tag, "concurrent"}, map[string]any{"part": "stress", "seed": env.Seed, "tier": env.Tier, "idx": idx, "config": cfg}, "%s", v.detail)
	}
	res.Add("stress_transactions", cnt.txns.Load())
	res.Add("stress_lock_calls", cnt.calls.Load())
	res.Add("stress_grants", cnt.grants.Load())
	res.Add("stress_denials", cnt.denials.Load())
	res.Add("stress_rerequests_of_held_locks", cnt.rereq.Load())
	res.Add("stress_upgrade_calls", cnt.upgrades.Load())
	res.Add("stress_upgrade_denied", cnt.upgradeDenied.Load())
	res.Add("stress_shared_coexistence_seen", cnt.sharedCoexist.Load())
	res.Add("stress_calls_with_no_other_transaction_near_the_row", cnt.decided.Load())
	res.Add("stress_commits", cnt.commits.Load())
	res.Add("stress_aborts", cnt.aborts.Load())
	res.Add("stress_lockset_guard_checks", cnt.guardChecks.Load())
	res.Seen("stress_configs", fmt.Sprintf("g%d-rows%d-procs%d", cfg.G, cfg.Rows, cfg.Procs))
	res.Nontrivial = cnt.denials.Load() > 0 && cnt.sharedCoexist.Load() > 0 && cnt.upgradeDenied.Load() > 0
	res.Key = fmt.Sprintf("stress-%d", k)
	if k == 0 {
		res.Sample = map[string]any{"part": "stress", "config": cfg, "transactions": cnt.txns.Load(), "denials": cnt.denials.Load()}
	}
}

// ---------------------------------------------------------------------------------------------

func c16WalkCases(env *core.Env) int {
	if env.Thorough() {
		return 32
	}
	return 16
}

func c16StressCases(env *core.Env) int {
	if env.Thorough() {
		return 48
	}
	return 16
}

func c16Run(env *core.Env, idx int) *core.CaseResult {
	res := core.NewResult()
	nE := len(c16Prefixes)
	switch {
	case idx < nE:
		c16Exhaustive(env, idx, res)
	case idx == nE:
		c16Coverage(env, res)
	case idx < nE+1+c16WalkCases(env):
		c16Walk(env, idx-nE-1, idx, res)
	default:
		c16Stress(env, idx-nE-1-c16WalkCases(env), idx, res)
	}
	return res
}

func c16Witness(env *core.Env, raw json.RawMessage) *core.CaseResult {
	res := core.NewResult()
	var w struct {
		Txns int      `json:"txns"`
		Rows int      `json:"rows"`
		Seq  []string `json:"seq"`
	}
	if err := json.Unmarshal(raw, &w); err != nil || len(w.Seq) == 0 || w.Txns < 1 || w.Txns > c16MaxT || w.Rows < 1 || w.Rows > c16MaxR {
		res.Inconclusive = "witness is not a lock sequence"
		return res
	}
	var seq []c16Sym
	for _, s := range w.Seq {
		y, ok := c16ParseSym(strings.TrimSpace(s))
		if !ok || int(y.T) >= w.Txns || int(y.R) >= w.Rows {
			res.Inconclusive = "bad symbol " + s
			return res
		}
		seq = append(seq, y)
	}
	s := c16NewSys(w.Txns, w.Rows)
	for i, y := range seq {
		if !s.m.valid(y) && !(y.K == c16U && s.txns[y.T].IsSharedLocked(&s.rids[y.R])) {
			res.Inconclusive = fmt.Sprintf("step %d %s: upgrade without a shared lock is outside the contract", i, y)
			return res
		}
		if v := s.step(y, i); v != nil {
			c16Report(res, w.Txns, w.Rows, seq, v, "witness")
			break
		}
	}
	c16Flush(res, s)
	return res
}

func init() {
	core.Register(&core.Check{
		ID:    "C16",
		Level: "exploration",
		Rule: "cases 0..230: the 231 valid two-symbol prefixes over the 21-symbol alphabet (3 txns x 2 rows: S, X, Upgrade (offered only where the model says S held and not X), ReleaseAll); " +
			"each case replays EVERY sequence of length 5 (quick) / 6 (thorough) with that prefix on a fresh LockManager+TransactionManager and compares, after every step, the returned bool and the transactions' lock sets with the model " +
			"(exhaustive for the bounded space; shorter sequences are prefixes). Then 1 case of state x symbol transition coverage (every reachable model state along up to 3 shortest paths x every symbol), " +
			"16/32 cases of random walks (2-6 txns x 1-5 rows, 300 steps, incl. the engine's repeated-upgrade call), 16/48 goroutine stress cases (8-32 goroutines, fixed transaction counts; ownership witness for overlaps, may-hold witness for unjustified denials, re-requests, quiescent probe). " +
			"Non-trivial (exhaustive/walk case) = contains a sequence with a shared-shared coexistence, a shared/exclusive denial and an upgrade denial; (stress case) = all three observed; distinct by prefix / case id",
		Assumptions: []string{
			"requests are issued the way the engine issues them: transactions from access.NewTransaction registered by TransactionManager.Begin, locks released only by TransactionManager.Commit/Abort, a new transaction id after every release",
			"LockUpgrade without a shared lock panics by contract and is not generated",
			"whether the shared lock set still lists a row the transaction holds exclusively is don't-care (reported as a counter)",
			"no-wait locking: a denied request returns false immediately; the lock manager itself never changes the transaction state (counter txn_state_changed_inside_lock_manager), the caller marks ABORTED",
		},
		NumCases:    func(env *core.Env) int { return len(c16Prefixes) + 1 + c16WalkCases(env) + c16StressCases(env) },
		RunCase:     c16Run,
		Witness:     c16Witness,
		CaseTimeout: 10 * time.Minute, // a thorough stress case is tens of seconds of pure CPU; never a verdict
		Extra: func(env *core.Env, agg *core.Aggregate) map[string]any {
			return map[string]any{
				"exhaustive":                     true,
				"exhaustive_scope":               fmt.Sprintf("all sequences of length <= %d over the 21-symbol alphabet for 3 transactions x 2 rows from the empty lock table (%d sequences of full length replayed); walks and stress are sampled", c16Depth(env), agg.Stats["exhaustive_sequences"]),
				"abstract_lock_table_states_3x2": len(agg.Sets["abstract_states_3x2"]),
			}
		},
		Vacuity: func(env *core.Env, agg *core.Aggregate) []string {
			var v []string
			if n := len(agg.Sets["abstract_states_3x2"]); n < 150 {
				v = append(v, fmt.Sprintf("only %d abstract lock-table states reached", n))
			}
			for _, k := range []string{"grants", "denials", "releases_by_abort", "releases_by_commit", "stress_denials", "stress_shared_coexistence_seen", "stress_upgrade_denied", "transition_coverage_sequences"} {
				if agg.Stats[k] == 0 {
					v = append(v, "no "+k+" observed")
				}
			}
			return v
		},
	})
}
