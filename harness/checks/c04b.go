package checks

// Part (b) of C04 and C05: multi-statement transactions from real goroutines on 8 hot rows with unique tokens.
// Rows 1-4 are "append" rows (new value = value read in the same transaction + "," + token: the version order of a row is
// reconstructible from its values), rows 5-8 are fixed-width rows (blind 8-character tokens: updates stay in place).
// Every call is recorded at the client boundary with invocation / response stamps from one atomic counter.

import (
	"fmt"
	"math/rand"
	"runtime/debug"
	"sort"
	"strings"
	"sync"
	"sync/atomic"

	"verifharness/internal/core"
	rm "verifharness/internal/refmodel"
	"verifharness/internal/sqlx"
)

func ilNumB(env *core.Env) int {
	if env.Thorough() {
		return 600
	}
	return 32
}

type cEvent struct {
	Worker, Txn, Stmt int
	Kind              string // read | append | blind | commit | abort
	Row               int32
	Tok               string
	Inv, Resp         int64
	Val               string // value read (reads) / value written (writes)
	Found             bool
	Aborted           bool // the statement aborted its transaction
}

type cTxn struct {
	Worker, N  int
	Events     []*cEvent
	CommitInv  int64
	CommitResp int64
	Committed  bool
	Aborted    bool // explicit or by a statement
	Toks       []string
}

func (t *cTxn) name() string { return fmt.Sprintf("w%dt%d", t.Worker, t.N) }

type cHistory struct {
	DupID      string // identity monitor: a transaction id handed out twice
	BeginCalls int
	Txns       []*cTxn
	Final      map[int32]string
	Panic      string
	Desc       map[string]any
}

func tokensOf(v string) []string {
	if v == "" {
		return nil
	}
	return strings.Split(v, ",")
}

func runConcurrentHistory(env *core.Env, r *rand.Rand, idx int, fixedOnly bool) *cHistory {
	workers := []int{4, 6, 8, 12, 16}[r.Intn(5)]
	txPer := 12
	if env.Thorough() {
		txPer = 30
	}
	memKB := []int{512, 1024, 4096}[r.Intn(3)]
	via := "sql"
	kinds := []string{"skiplist", "skiplist", "skiplist"}
	if r.Intn(3) == 0 {
		via = "api"
		kinds = []string{[]string{"uniq", "btree", "skiplist"}[r.Intn(3)], "", ""}
	}
	db := sqlx.Open(fmt.Sprintf("%s/cb_%d", env.TmpDir, idx), memKB, sqlx.Options{})
	if via == "sql" {
		db.CreateTableSQL("t", ilCols)
	} else {
		db.CreateTableAPI("t", ilCols, kinds)
	}
	h := &cHistory{Final: map[int32]string{}, Desc: map[string]any{"workers": workers, "txns_per_worker": txPer, "memKB": memKB, "via": via, "indexes": kinds, "fixed_width_only": fixedOnly}}
	{
		var rows []rm.Row
		for i := int32(1); i <= 8; i++ {
			v := "init"
			if i > 4 {
				v = fmt.Sprintf("init%04d", i)
			}
			rows = append(rows, rm.Row{rm.Int(i), rm.Int(0), rm.Str(v)})
		}
		txn := db.Begin()
		db.InsertPlan(txn, "t", rows)
		db.Commit(txn)
	}
	// identity monitor: transactions are told apart (by the lock manager, the write sets, the log) through their ids.
	// `workers` goroutines released together begin and commit empty transactions; no id may be handed out twice.
	{
		ids := make([][]int32, workers)
		gate := make(chan struct{})
		var sw sync.WaitGroup
		for w := 0; w < workers; w++ {
			sw.Add(1)
			go func(w int) {
				defer sw.Done()
				defer func() { recover() }()
				<-gate
				for i := 0; i < 1500; i++ {
					t := db.Begin()
					ids[w] = append(ids[w], int32(t.GetTransactionID()))
					db.Commit(t)
				}
			}(w)
		}
		close(gate)
		sw.Wait()
		seen := map[int32]int{}
		n := 0
		for w := range ids {
			for _, id := range ids[w] {
				n++
				if prev, dup := seen[id]; dup && h.DupID == "" {
					h.DupID = fmt.Sprintf("transaction id %d was handed out to a transaction of goroutine %d and to one of goroutine %d (%d concurrent Begin calls by %d goroutines)", id, prev, w, workers*1500, workers)
				}
				seen[id] = w
			}
		}
		h.BeginCalls = n
	}
	var clock atomic.Int64
	var mu sync.Mutex
	var wg sync.WaitGroup
	var stop atomic.Bool
	seeds := make([]int64, workers)
	for i := range seeds {
		seeds[i] = r.Int63()
	}
	for w := 0; w < workers; w++ {
		wg.Add(1)
		go func(w int) {
			defer wg.Done()
			lr := rand.New(rand.NewSource(seeds[w]))
			curSQL := ""
			defer func() {
				if p := recover(); p != nil {
					mu.Lock()
					if h.Panic == "" {
						h.Panic = fmt.Sprint(p) + " @ " + engineFrames(debug.Stack()) + " while executing " + clipStr(curSQL, 300)
					}
					mu.Unlock()
					stop.Store(true)
				}
			}()
			for n := 0; n < txPer && !stop.Load(); n++ {
				t := &cTxn{Worker: w, N: n}
				txn := db.Begin()
				ns := 1 + lr.Intn(3)
				lastRead := map[int32]string{}
				haveRead := map[int32]bool{}
				dead := false
				for s := 0; s < ns && !dead; s++ {
					row := int32(1 + lr.Intn(4))
					kind := "read"
					c := lr.Intn(10)
					if fixedOnly || lr.Intn(2) == 0 {
						row += 4
						if c >= 4 {
							kind = "blind"
						}
					} else if c >= 4 {
						kind = "append"
					}
					tok := fmt.Sprintf("w%02dt%02ds%d", w, n, s)
					ev := &cEvent{Worker: w, Txn: n, Stmt: s, Kind: kind, Row: row, Tok: tok}
					var sql string
					switch kind {
					case "read":
						sql = fmt.Sprintf("SELECT id, k, v FROM t WHERE id = %d;", row)
						if lr.Intn(4) == 0 {
							sql = fmt.Sprintf("SELECT id, k, v FROM t WHERE id = %d OR id < 0;", row) // sequential-scan path
						}
					case "blind":
						ev.Val = tok
						sql = fmt.Sprintf("UPDATE t SET v = '%s' WHERE id = %d;", tok, row)
					case "append":
						if !haveRead[row] {
							// an append is always preceded by a read of the row in the same transaction
							rev := &cEvent{Worker: w, Txn: n, Stmt: s, Kind: "read", Row: row}
							rev.Inv = clock.Add(1)
							rsql := fmt.Sprintf("SELECT id, k, v FROM t WHERE id = %d;", row)
							if lr.Intn(4) == 0 {
								rsql = fmt.Sprintf("SELECT id, k, v FROM t WHERE id = %d OR id < 0;", row)
							}
							rr := db.Exec(txn, rsql)
							rev.Resp = clock.Add(1)
							t.Events = append(t.Events, rev)
							if rr.Aborted {
								rev.Aborted = true
								dead = true
								break
							}
							if len(rr.Rows) == 1 {
								rev.Found, rev.Val = true, rr.Rows[0][2].S
							}
							lastRead[row], haveRead[row] = rev.Val, true
						}
						ev.Val = lastRead[row] + "," + tok
						sql = fmt.Sprintf("UPDATE t SET v = '%s' WHERE id = %d;", ev.Val, row)
					}
					if dead {
						break
					}
					ev.Inv = clock.Add(1)
					curSQL = sql
					rr := db.Exec(txn, sql)
					ev.Resp = clock.Add(1)
					t.Events = append(t.Events, ev)
					if rr.Err != nil {
						panic("statement error: " + rr.Err.Error())
					}
					if rr.Aborted {
						ev.Aborted = true
						dead = true
						break
					}
					if kind == "read" {
						if len(rr.Rows) == 1 {
							ev.Found, ev.Val = true, rr.Rows[0][2].S
						} else if len(rr.Rows) > 1 {
							ev.Val = fmt.Sprintf("<%d rows>", len(rr.Rows))
						}
						lastRead[row], haveRead[row] = ev.Val, true
					} else {
						t.Toks = append(t.Toks, tok)
						lastRead[row], haveRead[row] = ev.Val, true
					}
				}
				if dead {
					db.Abort(txn)
					t.Aborted = true
				} else if lr.Intn(6) == 0 {
					db.Abort(txn)
					t.Aborted = true
				} else {
					t.CommitInv = clock.Add(1)
					db.Commit(txn)
					t.CommitResp = clock.Add(1)
					t.Committed = true
				}
				mu.Lock()
				h.Txns = append(h.Txns, t)
				mu.Unlock()
			}
		}(w)
	}
	wg.Wait()
	if h.Panic == "" {
		msg, panicked := guarded(func() {
			res := db.ScanAllAuto("t")
			for _, row := range res.Rows {
				h.Final[row[0].I] = row[2].S
			}
			if len(res.Rows) != 8 {
				h.Panic = fmt.Sprintf("final table has %d rows instead of 8", len(res.Rows))
			}
		})
		if panicked {
			h.Panic = "final scan panicked: " + msg
		}
	}
	guarded(func() { db.S.ShutdownForTescase() })
	return h
}

func ilCaseB(env *core.Env, idx int, prop string) *core.CaseResult {
	r := env.Rand(idx)
	res := core.NewResult()
	fixedOnly := idx%3 == 0
	h := runConcurrentHistory(env, r, idx, fixedOnly)
	tags := []string{"goroutines"}
	if fixedOnly {
		tags = append(tags, "fixed-width-only")
	} else {
		tags = append(tags, "with-relocating-appends")
	}
	desc := func(extra map[string]any) map[string]any {
		m := map[string]any{"seed": env.Seed, "idx": idx, "history": h.Desc}
		for k, v := range extra {
			m[k] = v
		}
		return m
	}
	res.Add("goroutine_histories", 1)
	res.Add("concurrent_begin_calls_with_distinct_ids_checked", int64(h.BeginCalls))
	if h.DupID != "" {
		res.Violate("duplicate-transaction-id", tags, desc(nil), "%s: two live transactions with one id are not isolated from each other (lock ownership, write sets and log records are keyed by it)", h.DupID)
	}
	if h.Panic != "" {
		res.Violate("panic", tags, desc(nil), "concurrent multi-statement workload failed: %s", clipStr(h.Panic, 500))
		return res
	}
	owner := map[string]*cTxn{}
	for _, t := range h.Txns {
		for _, e := range t.Events {
			if e.Kind != "read" {
				owner[e.Tok] = t
			}
		}
		if t.Committed {
			res.Add("committed_transactions", 1)
		} else {
			res.Add("aborted_transactions", 1)
		}
	}
	lastTok := func(v string) string {
		ts := tokensOf(v)
		if len(ts) == 0 {
			return ""
		}
		return ts[len(ts)-1]
	}
	overlaps := 0
	for _, t := range h.Txns {
		for _, e := range t.Events {
			res.Add("statements_"+e.Kind, 1)
			if e.Aborted {
				res.Add("statements_aborted", 1)
				continue
			}
			if e.Kind != "read" {
				continue
			}
			res.Add("reads_completed", 1)
			if prop != "C04" {
				continue
			}
			toks := tokensOf(e.Val)
			// rule 1 + 2: every token in the value read belongs to this transaction or to a transaction that is not aborted and whose commit had been called before the read returned
			for i, tk := range toks {
				if strings.HasPrefix(tk, "init") {
					continue
				}
				w := owner[tk]
				if w == nil {
					res.Violate("read-unknown-token", tags, desc(map[string]any{"read": e}), "%s read row %d = %q containing a token nobody wrote", t.name(), e.Row, e.Val)
					continue
				}
				if w == t {
					continue
				}
				if w.Aborted || !w.Committed {
					res.Violate("dirty-read-of-aborted", tags, desc(map[string]any{"read": e, "writer": w.name()}), "%s read row %d = %q: token %s was written by %s, which aborted", t.name(), e.Row, clipStr(e.Val, 120), tk, w.name())
				} else if w.CommitInv > e.Resp {
					res.Violate("dirty-read", tags, desc(map[string]any{"read": e, "writer": w.name()}), "%s read row %d = %q (returned at stamp %d): token %s was written by %s whose Commit was only called at stamp %d", t.name(), e.Row, clipStr(e.Val, 120), e.Resp, tk, w.name(), w.CommitInv)
				}
				// intermediate value: the writer wrote this row again later in the same transaction, but the later token is missing
				if i == len(toks)-1 {
					var later string
					seen := false
					for _, we := range w.Events {
						if we.Kind != "read" && we.Row == e.Row && !we.Aborted {
							if seen {
								later = we.Tok
							}
							if we.Tok == tk {
								seen = true
							}
						}
					}
					if later != "" && w.Committed {
						res.Violate("intermediate-read", tags, desc(map[string]any{"read": e, "writer": w.name()}), "%s read row %d = %q whose newest token %s is an intermediate value of %s (it wrote %s later)", t.name(), e.Row, clipStr(e.Val, 120), tk, w.name(), later)
					}
				}
			}
			// rule 3 (append rows): every appender whose commit had returned before this read was invoked must be visible
			if e.Row <= 4 {
				have := map[string]bool{}
				for _, tk := range toks {
					have[tk] = true
				}
				for _, w := range h.Txns {
					if !w.Committed || w.CommitResp >= e.Inv || w == t {
						continue
					}
					for _, we := range w.Events {
						if we.Kind == "append" && we.Row == e.Row && !we.Aborted && !have[we.Tok] {
							// the token may have been legitimately dropped only if a later committed blind overwrite existed - append rows have none
							res.Violate("stale-read", tags, desc(map[string]any{"read": e, "writer": w.name()}), "%s read row %d = %q (invoked at stamp %d) which lacks token %s of %s, whose Commit had returned at stamp %d", t.name(), e.Row, clipStr(e.Val, 120), e.Inv, we.Tok, w.name(), w.CommitResp)
						}
					}
				}
			}
			// overlap bookkeeping (non-triviality): a foreign write statement on the same row whose transaction was open while this read ran
			for _, w := range h.Txns {
				if w == t {
					continue
				}
				for _, we := range w.Events {
					if we.Kind != "read" && we.Row == e.Row && we.Inv < e.Resp {
						end := w.CommitResp
						if !w.Committed {
							end = we.Resp + 1
						}
						if end > e.Inv {
							overlaps++
						}
					}
				}
			}
		}
	}
	res.Add("reads_overlapping_foreign_open_writes", int64(overlaps))
	if prop == "C04" {
		// aborted transactions leave nothing in the final state
		for row, v := range h.Final {
			for _, tk := range tokensOf(v) {
				if w := owner[tk]; w != nil && !w.Committed {
					res.Violate("aborted-write-in-final-state", tags, desc(map[string]any{"row": row}), "final value of row %d = %q contains token %s of %s, which did not commit", row, clipStr(v, 120), tk, w.name())
				}
			}
		}
		if overlaps > 0 {
			res.Nontrivial = true
		}
	} else {
		c05Graph(res, h, tags, desc, owner, lastTok)
	}
	res.Key = fmt.Sprintf("%s-b-%d", prop, idx)
	if idx == ilNumA(env) {
		res.Sample = map[string]any{"history": h.Desc, "transactions": len(h.Txns), "final": h.Final}
	}
	return res
}

// c05Graph: item-level direct serialization graph over the committed transactions + lost-update / repeatable-read checks.
func c05Graph(res *core.CaseResult, h *cHistory, tags []string, desc func(map[string]any) map[string]any, owner map[string]*cTxn, lastTok func(string) string) {
	// version order per row: list of writer tokens
	order := map[int32][]string{}
	for row := int32(1); row <= 4; row++ {
		for _, tk := range tokensOf(h.Final[row]) {
			if !strings.HasPrefix(tk, "init") {
				order[row] = append(order[row], tk)
			}
		}
	}
	for row := int32(5); row <= 8; row++ {
		type wv struct {
			tok  string
			resp int64
		}
		var ws []wv
		for _, t := range h.Txns {
			if !t.Committed {
				continue
			}
			for _, e := range t.Events {
				if e.Kind == "blind" && e.Row == row && !e.Aborted {
					ws = append(ws, wv{e.Tok, e.Resp})
				}
			}
		}
		sort.Slice(ws, func(i, j int) bool { return ws[i].resp < ws[j].resp })
		for _, w := range ws {
			order[row] = append(order[row], w.tok)
		}
		// under strict 2PL the last committed writer's value is the final one
		if len(ws) > 0 && h.Final[row] != ws[len(ws)-1].tok {
			// within one transaction two blind writes to the same row: only the later survives, already ordered by stamps
			res.Violate("final-value-order", tags, desc(map[string]any{"row": row}), "row %d: final value %q is not the value of the last committed writer by response stamp (%q): lock intervals of two committed writers overlapped", row, h.Final[row], ws[len(ws)-1].tok)
		}
	}
	// lost update (append rows): every committed appender's token exactly once
	for row := int32(1); row <= 4; row++ {
		cnt := map[string]int{}
		for _, tk := range order[row] {
			cnt[tk]++
		}
		for _, t := range h.Txns {
			for _, e := range t.Events {
				if e.Kind == "append" && e.Row == row && !e.Aborted {
					if t.Committed && cnt[e.Tok] != 1 {
						res.Violate("lost-update", tags, desc(map[string]any{"row": row, "writer": t.name()}), "row %d: token %s of committed %s appears %d times in the final value %q", row, e.Tok, t.name(), cnt[e.Tok], clipStr(h.Final[row], 160))
					}
					if !t.Committed && cnt[e.Tok] != 0 {
						res.Violate("aborted-write-survived", tags, desc(map[string]any{"row": row, "writer": t.name()}), "row %d: token %s of %s (not committed) is in the final value %q", row, e.Tok, t.name(), clipStr(h.Final[row], 160))
					}
				}
			}
		}
	}
	pos := map[string]int{}
	rowOf := map[string]int32{}
	for row, toks := range order {
		for i, tk := range toks {
			pos[tk] = i
			rowOf[tk] = row
		}
	}
	// graph
	type edge struct {
		to  *cTxn
		why string
	}
	g := map[*cTxn][]edge{}
	add := func(a, b *cTxn, why string) {
		if a == nil || b == nil || a == b || !a.Committed || !b.Committed {
			return
		}
		g[a] = append(g[a], edge{b, why})
	}
	for row, toks := range order {
		for i := 1; i < len(toks); i++ {
			add(owner[toks[i-1]], owner[toks[i]], fmt.Sprintf("ww on row %d (%s before %s)", row, toks[i-1], toks[i]))
		}
	}
	shared := 0
	for _, t := range h.Txns {
		if !t.Committed {
			continue
		}
		seenVal := map[int32]string{}
		wroteSince := map[int32]bool{}
		for _, e := range t.Events {
			if e.Aborted {
				continue
			}
			if e.Kind != "read" {
				wroteSince[e.Row] = true
				continue
			}
			// repeatable read
			if prev, ok := seenVal[e.Row]; ok && !wroteSince[e.Row] && prev != e.Val {
				res.Violate("non-repeatable-read", tags, desc(map[string]any{"reader": t.name(), "row": e.Row}), "%s read row %d twice without writing it in between: %q then %q", t.name(), e.Row, clipStr(prev, 100), clipStr(e.Val, 100))
			}
			seenVal[e.Row] = e.Val
			wroteSince[e.Row] = false
			lt := lastTok(e.Val)
			var idx int
			if strings.HasPrefix(lt, "init") || lt == "" {
				idx = -1
			} else {
				w := owner[lt]
				if w == t {
					continue
				}
				p, ok := pos[lt]
				if !ok || rowOf[lt] != e.Row {
					continue // value of an uncommitted / unknown writer: C04's business
				}
				idx = p
				add(w, t, fmt.Sprintf("wr on row %d (%s read %s)", e.Row, t.name(), lt))
				shared++
			}
			// rw: the writer of the successor version
			toks := order[e.Row]
			for j := idx + 1; j < len(toks); j++ {
				if owner[toks[j]] != t {
					add(t, owner[toks[j]], fmt.Sprintf("rw on row %d (%s read the version before %s)", e.Row, t.name(), toks[j]))
					break
				}
			}
		}
	}
	res.Add("dependency_edges", int64(func() int {
		n := 0
		for _, es := range g {
			n += len(es)
		}
		return n
	}()))
	if shared > 0 {
		res.Nontrivial = true
	}
	// cycle search: DFS with colours, report the first cycle found
	color := map[*cTxn]int{}
	var stack []*cTxn
	var whyStack []string
	var cycle []string
	var dfs func(u *cTxn) bool
	dfs = func(u *cTxn) bool {
		color[u] = 1
		stack = append(stack, u)
		for _, e := range g[u] {
			if color[e.to] == 1 {
				// cycle: from e.to ... u -> e.to
				start := 0
				for i, x := range stack {
					if x == e.to {
						start = i
					}
				}
				for i := start; i < len(stack)-1; i++ {
					cycle = append(cycle, fmt.Sprintf("%s -> %s [%s]", stack[i].name(), stack[i+1].name(), whyStack[i+1]))
				}
				cycle = append(cycle, fmt.Sprintf("%s -> %s [%s]", u.name(), e.to.name(), e.why))
				return true
			}
			if color[e.to] == 0 {
				whyStack = append(whyStack, e.why)
				if dfs(e.to) {
					return true
				}
				whyStack = whyStack[:len(whyStack)-1]
			}
		}
		stack = stack[:len(stack)-1]
		color[u] = 2
		return false
	}
	var keys []*cTxn
	for _, t := range h.Txns {
		if t.Committed {
			keys = append(keys, t)
		}
	}
	sort.Slice(keys, func(i, j int) bool { return keys[i].name() < keys[j].name() })
	for _, t := range keys {
		if color[t] == 0 {
			whyStack = []string{""}
			stack = nil
			if dfs(t) {
				res.Violate("dependency-cycle", tags, desc(map[string]any{"cycle": cycle}), "the committed transactions have a dependency cycle: %s", strings.Join(cycle, "; "))
				break
			}
		}
	}
}
