module verifharness

go 1.21

require github.com/ryogrid/SamehadaDB/lib v0.0.0

require (
	github.com/deckarep/golang-set/v2 v2.3.0 // indirect
	github.com/devlights/gomy v0.4.0 // indirect
)

replace github.com/ryogrid/SamehadaDB/lib => /repo/lib
