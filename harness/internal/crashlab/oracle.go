package crashlab

import (
	"fmt"
	"os"
	"runtime"
	"runtime/debug"
	"sort"
	"strings"
	"sync/atomic"
	"time"

	"verifharness/internal/rec"
	rm "verifharness/internal/refmodel"
	"verifharness/internal/sqlx"
)

// State is table -> id -> row.
type State map[string]map[int32]rm.Row

func (s State) clone() State {
	n := State{}
	for t, m := range s {
		n[t] = map[int32]rm.Row{}
		for id, r := range m {
			n[t][id] = r
		}
	}
	return n
}

func applyOps(s State, ops []Op) {
	for _, op := range ops {
		switch op.Kind {
		case "ins":
			s[op.Table][op.Row[0].I] = op.Row
		case "del":
			delete(s[op.Table], op.ID)
		case "upd":
			delete(s[op.Table], op.ID)
			s[op.Table][op.Row[0].I] = op.Row
		}
	}
}

// Expected returns the committed state for the crash point "events [0,k) are on disk" and the transactions whose
// commit was in progress at that point (each may be wholly present or wholly absent).
func (h *History) Expected(k int) (base State, inCommit []*Txn, losers []*Txn) {
	base = State{}
	for _, t := range h.P.Tables {
		base[t.Name] = map[int32]rm.Row{}
	}
	var committed []*Txn
	for _, t := range h.Txns {
		switch {
		case t.CommitRet >= 0 && t.CommitRet <= k:
			committed = append(committed, t)
		case t.CommitCall >= 0 && t.CommitCall <= k && len(t.Ops) > 0:
			inCommit = append(inCommit, t)
		case t.Begin <= k && len(t.Ops) > 0:
			losers = append(losers, t)
		}
	}
	// transactions of an earlier, unrecorded session all carry position 0: they committed one after the other, in creation order
	sort.SliceStable(committed, func(i, j int) bool {
		if committed[i].CommitRet != committed[j].CommitRet {
			return committed[i].CommitRet < committed[j].CommitRet
		}
		return committed[i].N < committed[j].N
	})
	for _, t := range committed {
		applyOps(base, t.Ops)
	}
	return
}

// Recovered is what a restart on a crash image produced.
type Recovered struct {
	Hung    bool   // the restart did not return (an engine goroutine was abandoned: the process should be recycled)
	Failure string // restart or scan panicked / failed
	Tables  map[string][]rm.Row
	Battery string      // post-recovery battery failure
	Trace   []rec.Event // RecoverRecorded: the I/O events of the restart itself
	DB      *sqlx.DB
}

func guard(f func()) (msg string) {
	defer func() {
		if p := recover(); p != nil {
			msg = fmt.Sprint(p) + " @ " + frames(debug.Stack())
		}
	}()
	f()
	return ""
}

func frames(stack []byte) string {
	var out []string
	for _, line := range strings.Split(string(stack), "\n") {
		if strings.HasPrefix(line, "github.com/ryogrid/") {
			f := line
			if i := strings.LastIndex(f, "("); i > 0 {
				f = f[:i]
			}
			out = append(out, strings.TrimPrefix(f, "github.com/ryogrid/SamehadaDB/lib/"))
			if len(out) >= 4 {
				break
			}
		}
	}
	return strings.Join(out, " < ")
}

// Recover writes the image to path and starts the real engine on it (file-backed), then reads every table by a plan-level full scan.
// keepOpen: leave the database open (caller closes it with Close).
func Recover(path string, im *rec.Image, memKB int, tables []TableDef, battery bool) *Recovered {
	return recoverImpl(path, im, memKB, tables, battery, false)
}

// RecoverRecorded is Recover with the storage boundary of the restart itself recorded (Recovered.Trace): the I/O the
// start-up performed (eviction writes during redo, log truncation, re-seeded log records, final page flushes).
// The trace ends when NewSamehadaDB returns; the table scans and the battery are not part of it.
func RecoverRecorded(path string, im *rec.Image, memKB int, tables []TableDef) *Recovered {
	return recoverImpl(path, im, memKB, tables, false, true)
}

// OpenWithTimeout restarts the file-backed database at path. A restart normally takes milliseconds; one that has not
// returned after RestartTimeout is sampled twice (2 s apart) and reported as hung (the start-up goroutine is abandoned:
// the caller should ask for its child process to be recycled).
func OpenWithTimeout(path string, memKB int) (db *sqlx.DB, failure string, hung bool) {
	done := make(chan string, 1)
	var gid atomic.Value
	go func() {
		gid.Store(goid())
		done <- guard(func() { db = sqlx.Open(path, memKB, sqlx.Options{File: true}) })
	}()
	select {
	case msg := <-done:
		if msg != "" {
			return nil, "restart panicked: " + msg, false
		}
		return db, "", false
	case <-time.After(RestartTimeout):
		id, _ := gid.Load().(string)
		s1 := stackOf(id)
		time.Sleep(2 * time.Second)
		s2 := stackOf(id)
		select {
		case msg := <-done:
			if msg != "" {
				return nil, "restart panicked: " + msg, false
			}
			return db, "", false
		default:
			return nil, fmt.Sprintf("restart did not return within %v (normal: milliseconds); start-up goroutine is in [%s] and 2 s later in [%s]", RestartTimeout, s1, s2), true
		}
	}
}

func recoverImpl(path string, im *rec.Image, memKB int, tables []TableDef, battery bool, record bool) *Recovered {
	out := &Recovered{Tables: map[string][]rm.Row{}}
	if err := im.WriteFiles(path); err != nil {
		out.Failure = "harness: cannot write image: " + err.Error()
		return out
	}
	var db *sqlx.DB
	done := make(chan string, 1)
	var gid atomic.Value
	var get func() *rec.Recorder
	if record {
		get = rec.Install()
	}
	go func() {
		gid.Store(goid())
		done <- guard(func() { db = sqlx.Open(path, memKB, sqlx.Options{File: true}) })
	}()
	defer func() {
		if record {
			rec.Uninstall()
		}
	}()
	select {
	case msg := <-done:
		if msg != "" {
			out.Failure = "restart panicked: " + msg
			return out
		}
	case <-time.After(RestartTimeout):
		// normal restarts take milliseconds. Confirm with two stack samples that the start-up goroutine is still inside the engine.
		id, _ := gid.Load().(string)
		s1 := stackOf(id)
		time.Sleep(2 * time.Second)
		s2 := stackOf(id)
		select {
		case msg := <-done:
			if msg != "" {
				out.Failure = "restart panicked: " + msg
				return out
			}
		default:
			out.Hung = true
			out.Failure = fmt.Sprintf("restart did not return within %v (normal: milliseconds); start-up goroutine is in [%s] and 2 s later in [%s]", RestartTimeout, s1, s2)
			return out
		}
	}
	out.DB = db
	if record {
		if r := get(); r != nil {
			r.On = false
			out.Trace = append([]rec.Event(nil), r.Events...)
		}
	}
	for _, t := range tables {
		var res sqlx.Result
		if msg := guard(func() { res = db.ScanAllAuto(t.Name) }); msg != "" {
			out.Failure = "full scan of " + t.Name + " after restart panicked: " + msg
			return out
		}
		if res.Err != nil {
			out.Failure = "full scan of " + t.Name + " after restart failed: " + res.Err.Error()
			return out
		}
		if res.Aborted {
			out.Failure = "full scan of " + t.Name + " after restart aborted"
			return out
		}
		out.Tables[t.Name] = res.Rows
	}
	if battery {
		out.Battery = runBattery(db, tables, out.Tables)
		// every fourth recovered database additionally gets new committed work, is left like a crash again and restarted:
		// what was committed after a recovery has to survive the next crash as well
		if out.Battery == "" && atomic.AddInt64(&durabilityCounter, 1)%4 == 0 {
			out.Battery = durabilityAfterRecovery(out, path, memKB, tables)
		}
	}
	return out
}

var durabilityCounter int64

// durabilityAfterRecovery commits one more row per table on the recovered database, closes it like a crash, restarts it
// and expects the recovered rows plus the new ones. The database handle of out is replaced by the restarted one.
func durabilityAfterRecovery(out *Recovered, path string, memKB int, tables []TableDef) string {
	db := out.DB
	want := map[string][]rm.Row{}
	for _, t := range tables {
		row := rm.Row{rm.Int(1900000001), rm.Int(78), rm.Str("committed-after-recovery")}
		sql, _ := sqlx.InsertSQL(t.Name, Cols, []rm.Row{row})
		var r sqlx.Result
		if msg := guard(func() { r = db.Auto(sql) }); msg != "" || r.Err != nil || r.Aborted {
			return fmt.Sprintf("INSERT after recovery on %s: panic=%q err=%v aborted=%v", t.Name, msg, r.Err, r.Aborted)
		}
		want[t.Name] = append(append([]rm.Row{}, out.Tables[t.Name]...), row)
	}
	guard(func() { db.S.ShutdownForTescase() })
	out.DB = nil
	db2, failure, hung := OpenWithTimeout(path, memKB)
	if hung {
		out.Hung = true
		return "restart after post-recovery work and a crash-like close: " + failure
	}
	if failure != "" {
		return "restart after post-recovery work and a crash-like close: " + failure
	}
	out.DB = db2
	for _, t := range tables {
		var res sqlx.Result
		if msg := guard(func() { res = db2.ScanAllAuto(t.Name) }); msg != "" || res.Err != nil || res.Aborted {
			return fmt.Sprintf("scan of %s after post-recovery work, crash-like close and restart: panic=%q err=%v aborted=%v", t.Name, msg, res.Err, res.Aborted)
		}
		if d := rm.DiffMultiset(res.Rows, want[t.Name], nil); d != "" {
			return fmt.Sprintf("table %s after post-recovery committed work, a crash-like close and another restart differs from recovered rows + the committed row: %s", t.Name, d)
		}
	}
	return ""
}

// Close closes the files of a recovered database without flushing (crash-like) and removes them.
func (rc *Recovered) Close(path string) {
	if rc.DB != nil {
		guard(func() { rc.DB.S.ShutdownForTescase() })
	}
	os.Remove(path + ".db")
	os.Remove(path + ".log")
}

// runBattery: "the database accepts new statements afterwards": insert, point select, update, delete on every table,
// each compared with the model built from what the restart showed.
func runBattery(db *sqlx.DB, tables []TableDef, have map[string][]rm.Row) string {
	for _, t := range tables {
		var fail string
		msg := guard(func() {
			id := int32(1900000000)
			row := rm.Row{rm.Int(id), rm.Int(77), rm.Str("post-recovery")}
			sql, _ := sqlx.InsertSQL(t.Name, Cols, []rm.Row{row})
			if r := db.Auto(sql); r.Err != nil || r.Aborted {
				fail = fmt.Sprintf("INSERT after restart: err=%v aborted=%v", r.Err, r.Aborted)
				return
			}
			r := db.Auto(fmt.Sprintf("SELECT id, k, v FROM %s WHERE id = %d;", t.Name, id))
			if r.Err != nil || r.Aborted || len(r.Rows) != 1 || r.Rows[0].Canon() != row.Canon() {
				fail = fmt.Sprintf("point SELECT of the row inserted after restart: err=%v aborted=%v rows=%v", r.Err, r.Aborted, r.Rows)
				return
			}
			if r := db.Auto(fmt.Sprintf("UPDATE %s SET v = 'post-recovery-updated-longer' WHERE id = %d;", t.Name, id)); r.Err != nil || r.Aborted {
				fail = fmt.Sprintf("UPDATE after restart: err=%v aborted=%v", r.Err, r.Aborted)
				return
			}
			// an old row must be updatable and readable through the index path too
			if len(have[t.Name]) > 0 {
				old := have[t.Name][0]
				r := db.Auto(fmt.Sprintf("SELECT id, k, v FROM %s WHERE id = %d;", t.Name, old[0].I))
				if r.Err != nil || r.Aborted || len(r.Rows) != 1 || r.Rows[0].Canon() != old.Canon() {
					fail = fmt.Sprintf("index-path point SELECT of recovered row id=%d: err=%v aborted=%v got %v want %v", old[0].I, r.Err, r.Aborted, r.Rows, old)
					return
				}
			}
			if r := db.Auto(fmt.Sprintf("DELETE FROM %s WHERE id = %d;", t.Name, id)); r.Err != nil || r.Aborted {
				fail = fmt.Sprintf("DELETE after restart: err=%v aborted=%v", r.Err, r.Aborted)
				return
			}
			res := db.ScanAllAuto(t.Name)
			if d := rm.DiffMultiset(res.Rows, have[t.Name], nil); d != "" {
				fail = "table after insert+update+delete of a fresh row differs from the recovered table: " + d
			}
		})
		if msg != "" {
			return "battery on " + t.Name + " panicked: " + msg
		}
		if fail != "" {
			return "battery on " + t.Name + ": " + fail
		}
	}
	return ""
}

// Verdict of comparing a recovered database with the oracle.
type Verdict struct {
	OK      bool
	C01     []string // committed effect missing / damaged, restart failure
	C02     []string // loser effect present, half-applied in-commit transaction
	Matched string   // "base" or "base+T<n>"
}

func stateRows(s State, table string) []rm.Row {
	var out []rm.Row
	for _, r := range s[table] {
		out = append(out, r)
	}
	return out
}

// Judge compares the recovered tables with the candidates.
func (h *History) Judge(k int, rc *Recovered) Verdict {
	base, inCommit, losers := h.Expected(k)
	if rc.Failure != "" {
		v := Verdict{C01: []string{rc.Failure}}
		if rc.DB != nil && len(h.losersAt(k)) > 0 {
			// the restart itself succeeded but a table cannot be read (a statement aborts or panics on it) while transactions were
			// unfinished at the crash: leftovers of a loser (delete marks, half-undone rows) are also an effect of an uncommitted
			// transaction, so the observation counts for C02 as well
			v.C02 = []string{rc.Failure + " (unfinished transactions at the crash point: leftover of a loser)"}
		}
		return v
	}
	// every subset of the transactions whose commit was in progress may have become durable (single-goroutine
	// histories have at most one; concurrent histories one per client). In-progress commits touch disjoint rows
	// or are ordered by their row locks, so applying a subset in commit-call order is exact.
	cands := []State{base}
	names := []string{"base"}
	if len(inCommit) > 10 {
		inCommit = inCommit[:10]
	}
	for mask := 1; mask < 1<<len(inCommit); mask++ {
		c := base.clone()
		name := "base"
		for i, u := range inCommit {
			if mask&(1<<i) != 0 {
				applyOps(c, u.Ops)
				name += fmt.Sprintf("+T%d", u.N)
			}
		}
		cands = append(cands, c)
		names = append(names, name)
	}
	for ci, c := range cands {
		ok := true
		for _, t := range h.P.Tables {
			if rm.DiffMultiset(rc.Tables[t.Name], stateRows(c, t.Name), nil) != "" {
				ok = false
				break
			}
		}
		if ok {
			v := Verdict{OK: true, Matched: names[ci]}
			if rc.Battery != "" {
				v.OK = false
				v.C01 = append(v.C01, rc.Battery)
			}
			return v
		}
	}
	// attribute the differences against the base candidate
	v := Verdict{}
	loserVals := map[string]string{} // canon row -> who
	loserDel := map[string]string{}  // table/id -> who
	for _, t := range append(append([]*Txn{}, losers...), inCommit...) {
		for _, op := range t.Ops {
			who := fmt.Sprintf("T%d", t.N)
			if op.Row != nil {
				loserVals[op.Table+"|"+op.Row.Canon()] = who
			}
			if op.Kind == "del" || (op.Kind == "upd" && op.Row[0].I != op.ID) {
				loserDel[fmt.Sprintf("%s|%d", op.Table, op.ID)] = who
			}
		}
	}
	for _, t := range h.P.Tables {
		got := map[int32][]rm.Row{}
		for _, r := range rc.Tables[t.Name] {
			if len(r) == 0 || r[0].K != rm.KInt {
				v.C01 = append(v.C01, fmt.Sprintf("table %s: malformed row %v", t.Name, r))
				continue
			}
			got[r[0].I] = append(got[r[0].I], r)
		}
		ids := map[int32]bool{}
		for id := range got {
			ids[id] = true
		}
		for id := range base[t.Name] {
			ids[id] = true
		}
		var sorted []int
		for id := range ids {
			sorted = append(sorted, int(id))
		}
		sort.Ints(sorted)
		for _, idi := range sorted {
			id := int32(idi)
			want, has := base[t.Name][id]
			g := got[id]
			switch {
			case has && len(g) == 1 && g[0].Canon() == want.Canon():
				continue
			case has && len(g) == 0:
				if who, ok := loserDel[fmt.Sprintf("%s|%d", t.Name, id)]; ok {
					v.C02 = append(v.C02, fmt.Sprintf("table %s: committed row id=%d is gone - the delete/move of uncommitted %s survived", t.Name, id, who))
				} else {
					v.C01 = append(v.C01, fmt.Sprintf("table %s: committed row id=%d %v is missing", t.Name, id, want))
				}
			case !has:
				for _, r := range g {
					if who, ok := loserVals[t.Name+"|"+r.Canon()]; ok {
						v.C02 = append(v.C02, fmt.Sprintf("table %s: row %v written by uncommitted/aborted %s is present", t.Name, r, who))
					} else {
						v.C01 = append(v.C01, fmt.Sprintf("table %s: unexpected row %v (not written by any transaction in this form; committed delete lost or damaged data)", t.Name, r))
					}
				}
			default: // has, but different value or duplicates
				for _, r := range g {
					if r.Canon() == want.Canon() {
						continue
					}
					if who, ok := loserVals[t.Name+"|"+r.Canon()]; ok {
						v.C02 = append(v.C02, fmt.Sprintf("table %s: row id=%d holds %v written by uncommitted/aborted %s instead of committed %v", t.Name, id, r, who, want))
					} else {
						v.C01 = append(v.C01, fmt.Sprintf("table %s: row id=%d holds %v instead of committed %v (stale or damaged)", t.Name, id, r, want))
					}
				}
				if len(g) > 1 {
					same := 0
					for _, r := range g {
						if r.Canon() == want.Canon() {
							same++
						}
					}
					if same > 1 {
						v.C01 = append(v.C01, fmt.Sprintf("table %s: committed row id=%d appears %d times", t.Name, id, same))
					}
				}
			}
		}
	}
	if len(inCommit) > 0 && len(v.C01) == 0 && len(v.C02) > 0 {
		v.C02 = append(v.C02, fmt.Sprintf("(commit of T%d was in progress: neither wholly present nor wholly absent)", inCommit[0].N))
	}
	if len(v.C01) == 0 && len(v.C02) == 0 {
		v.C01 = append(v.C01, "recovered tables match no candidate state")
	}
	return v
}

// RestartTimeout is the generous wall-clock limit of one restart (normal: ~10 ms).
var RestartTimeout = 20 * time.Second

func goid() string {
	b := make([]byte, 64)
	b = b[:runtime.Stack(b, false)]
	f := strings.Fields(string(b))
	if len(f) >= 2 {
		return f[1]
	}
	return ""
}

// stackOf returns the engine frames of goroutine id from a full dump.
func stackOf(id string) string {
	buf := make([]byte, 1<<20)
	buf = buf[:runtime.Stack(buf, true)]
	for _, g := range strings.Split(string(buf), "\n\n") {
		if strings.HasPrefix(g, "goroutine "+id+" ") {
			return frames([]byte(g))
		}
	}
	return "goroutine gone"
}

// losersAt returns the transactions that had written something but had neither committed nor finished aborting at crash point k.
func (h *History) losersAt(k int) []*Txn {
	var out []*Txn
	for _, t := range h.Txns {
		if len(t.Stmts) == 0 || t.Begin > k {
			continue
		}
		if t.CommitRet >= 0 && t.CommitRet <= k {
			continue
		}
		if t.AbortRet >= 0 && t.AbortRet <= k {
			continue
		}
		out = append(out, t)
	}
	return out
}
