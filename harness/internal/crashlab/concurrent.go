package crashlab

import (
	"fmt"
	"math/rand"
	"sort"
	"strings"
	"sync"
	"time"

	"verifharness/internal/rec"
	rm "verifharness/internal/refmodel"
	"verifharness/internal/sqlx"
)

// RunConcurrent executes a history driven by p.Clients goroutines on one recorded database. Every client owns a
// disjoint range of row ids (so the committed-state model of a client is exact whatever the schedule), runs
// multi-statement transactions and auto-commit statements, and places BEGIN / COMMIT-CALL / COMMIT-RET / ABORT-RET
// markers atomically in the recorder's event sequence. With p.ConcurrentIO the recorder does not serialise the
// engine's calls (page write stamped when called, log write stamped when returned, see rec.Recorder.Concurrent),
// so every prefix of the event sequence is a crash state the property's model allows:
// all log writes that had returned + any page writes that had been issued.
func RunConcurrent(r *rand.Rand, path string, p Params) (h *History, fatal string) {
	h = &History{P: p, Stats: map[string]int64{}}
	get := rec.Install()
	defer rec.Uninstall()
	db := sqlx.Open(path, p.MemKB, sqlx.Options{File: p.File})
	rc := get()
	rec.Uninstall()
	var mu sync.Mutex // h.Txns, h.Stats, h.StmtLog, h.EndedEarly, fatal
	nTxn := 0
	newTxn := func(auto bool) *Txn {
		mu.Lock()
		defer mu.Unlock()
		nTxn++
		t := &Txn{N: nTxn, CommitCall: -1, CommitRet: -1, AbortRet: -1, Auto: auto}
		h.Txns = append(h.Txns, t)
		return t
	}
	stat := func(k string) {
		mu.Lock()
		h.Stats[k]++
		mu.Unlock()
	}
	logStmt := func(s string) {
		mu.Lock()
		h.StmtLog = append(h.StmtLog, s)
		mu.Unlock()
	}
	for _, t := range p.Tables {
		if t.Via == "sql" {
			if err := db.CreateTableSQL(t.Name, Cols); err != nil {
				return h, "create table: " + err.Error()
			}
		} else {
			db.CreateTableAPI(t.Name, Cols, t.Idx)
		}
	}
	// committed rows of each client, per table
	type cstate struct {
		rows   map[string]map[int32]rm.Row
		nextID int32
	}
	cs := make([]*cstate, p.Clients)
	for c := range cs {
		cs[c] = &cstate{rows: map[string]map[int32]rm.Row{}, nextID: int32((c + 1) * 100000)}
		for _, t := range p.Tables {
			cs[c].rows[t.Name] = map[int32]rm.Row{}
		}
	}
	// preload (serial): a few committed rows per client and table, recorded as ordinary transactions
	for c := range cs {
		for _, td := range p.Tables {
			var rows []rm.Row
			for j := 0; j < 3; j++ {
				id := cs[c].nextID
				cs[c].nextID++
				rows = append(rows, rm.Row{rm.Int(id), rm.Int(int32(r.Intn(50))), rm.Str(payload(r, p.RowSizes, p.MaxPayload, fmt.Sprintf("pre%d.", c)))})
			}
			t := newTxn(true)
			t.Begin = rc.MarkIdx("BEGIN", t.N)
			t.CommitCall = rc.MarkIdx("COMMIT-CALL", t.N)
			sql, _ := sqlx.InsertSQL(td.Name, Cols, rows)
			t.Stmts = []string{sql}
			res := db.Auto(sql)
			if res.Err != nil || res.Aborted {
				return h, fmt.Sprintf("preload failed: %v aborted=%v", res.Err, res.Aborted)
			}
			t.CommitRet = rc.MarkIdx("COMMIT-RET", t.N)
			for _, row := range rows {
				t.Ops = append(t.Ops, Op{Table: td.Name, Kind: "ins", ID: row[0].I, Row: row})
				cs[c].rows[td.Name][row[0].I] = row
			}
		}
	}
	h.SetupEnd = rc.Len()
	if p.ConcurrentIO {
		rc.Concurrent = true
		rc.LogDelay = p.LogDelay
	}
	stopAll := false
	stopped := func() bool { mu.Lock(); defer mu.Unlock(); return stopAll }
	fail := func(msg string) {
		mu.Lock()
		if h.EndedEarly == "" {
			h.EndedEarly = msg
		}
		stopAll = true
		mu.Unlock()
	}
	var wg sync.WaitGroup
	client := func(c int, lr *rand.Rand) {
		defer wg.Done()
		defer func() {
			if x := recover(); x != nil {
				mu.Lock()
				if fatal == "" {
					fatal = fmt.Sprintf("client %d: %v", c, x)
				}
				stopAll = true
				mu.Unlock()
			}
		}()
		st := cs[c]
		lit := func(cell rm.Cell) string { s, _ := cell.SQLLit(); return s }
		steps := p.Steps / p.Clients
		for step := 0; step < steps && !stopped(); step++ {
			auto := lr.Intn(100) < 15
			t := newTxn(auto)
			overlay := map[string]map[int32]*rm.Row{}
			for _, td := range p.Tables {
				overlay[td.Name] = map[int32]*rm.Row{}
			}
			visible := func(table string) []int {
				var ids []int
				for id := range st.rows[table] {
					if rp, ok := overlay[table][id]; ok && rp == nil {
						continue
					}
					ids = append(ids, int(id))
				}
				for id, rp := range overlay[table] {
					if _, ok := st.rows[table][id]; !ok && rp != nil {
						ids = append(ids, int(id))
					}
				}
				sort.Ints(ids)
				return ids
			}
			rowOf := func(table string, id int32) rm.Row {
				if rp, ok := overlay[table][id]; ok {
					return *rp
				}
				return st.rows[table][id]
			}
			// gen returns one statement and its logical ops
			gen := func(n int) (string, []Op) {
				table := p.Tables[lr.Intn(len(p.Tables))].Name
				tag := fmt.Sprintf("c%dt%ds%d.", c, t.N, n)
				ids := visible(table)
				k := lr.Intn(12)
				if p.NoUpdate && k >= 4 && k < 9 {
					k = 0
				}
				if len(ids) == 0 {
					k = 0
				}
				switch {
				case k < 4:
					cnt := 1
					if lr.Intn(4) == 0 {
						cnt = 2 + lr.Intn(2)
					}
					var rows []rm.Row
					var ops []Op
					for j := 0; j < cnt; j++ {
						id := st.nextID
						st.nextID++
						row := rm.Row{rm.Int(id), rm.Int(int32(lr.Intn(50))), rm.Str(payload(lr, p.RowSizes, p.MaxPayload, tag))}
						rows = append(rows, row)
						ops = append(ops, Op{Table: table, Kind: "ins", ID: id, Row: row})
					}
					sql, _ := sqlx.InsertSQL(table, Cols, rows)
					stat("stmt_insert")
					return sql, ops
				case k < 9:
					id := int32(ids[lr.Intn(len(ids))])
					old := rowOf(table, id)
					nr := old.Clone()
					var set string
					switch lr.Intn(5) {
					case 0:
						nr[2] = rm.Str(payload(lr, []int{len(old[2].S)}, p.MaxPayload, tag))
						set = "v = " + lit(nr[2])
						stat("stmt_update_same_size")
					case 1:
						nr[2] = rm.Str(payload(lr, []int{len(old[2].S) + 1 + lr.Intn(600)}, p.MaxPayload, tag))
						set = "v = " + lit(nr[2])
						stat("stmt_update_grow")
					case 2:
						n := len(old[2].S) - 1 - lr.Intn(20)
						if n < 0 {
							n = 0
						}
						nr[2] = rm.Str(payload(lr, []int{n}, p.MaxPayload, tag))
						set = "v = " + lit(nr[2])
						stat("stmt_update_shrink")
					case 3:
						nr[1] = rm.Int(int32(lr.Intn(1000)))
						set = "k = " + lit(nr[1])
						stat("stmt_update_int")
					default:
						nid := st.nextID
						st.nextID++
						nr[0] = rm.Int(nid)
						set = "id = " + lit(nr[0])
						stat("stmt_update_key")
					}
					return fmt.Sprintf("UPDATE %s SET %s WHERE id = %d;", table, set, id), []Op{{Table: table, Kind: "upd", ID: id, Row: nr}}
				default:
					id := int32(ids[lr.Intn(len(ids))])
					stat("stmt_delete")
					return fmt.Sprintf("DELETE FROM %s WHERE id = %d;", table, id), []Op{{Table: table, Kind: "del", ID: id}}
				}
			}
			apply := func(ops []Op) {
				for _, op := range ops {
					switch op.Kind {
					case "ins":
						r2 := op.Row.Clone()
						overlay[op.Table][op.ID] = &r2
					case "del":
						overlay[op.Table][op.ID] = nil
					case "upd":
						if op.Row[0].I != op.ID {
							overlay[op.Table][op.ID] = nil
						}
						r2 := op.Row.Clone()
						overlay[op.Table][op.Row[0].I] = &r2
					}
					t.Ops = append(t.Ops, op)
				}
			}
			commitModel := func() {
				for table, ov := range overlay {
					for id, rp := range ov {
						if rp == nil {
							delete(st.rows[table], id)
						} else {
							st.rows[table][id] = *rp
						}
					}
				}
			}
			if auto {
				sql, ops := gen(0)
				t.Stmts = []string{sql}
				logStmt(fmt.Sprintf("c%d T%d(auto): %s", c, t.N, clip(sql)))
				t.Begin = rc.MarkIdx("BEGIN", t.N)
				t.CommitCall = rc.MarkIdx("COMMIT-CALL", t.N)
				// the ops are declared before the call: from COMMIT-CALL on the transaction counts as "commit in progress"
				apply(ops)
				res := db.Auto(sql)
				stat("auto_statements")
				if res.Err != nil {
					fail("auto statement error: " + res.Err.Error())
					return
				}
				if res.Aborted {
					t.Ops = nil
					t.CommitCall = -1
					t.AbortRet = rc.MarkIdx("ABORT-RET", t.N)
					stat("unexpected_aborts")
					continue
				}
				t.CommitRet = rc.MarkIdx("COMMIT-RET", t.N)
				commitModel()
				stat("commits")
				stat("writing_commits")
				continue
			}
			t.Begin = rc.MarkIdx("BEGIN", t.N)
			tx := db.Begin()
			stat("txns")
			nst := 1 + lr.Intn(4)
			aborted := false
			for n := 0; n < nst; n++ {
				sql, ops := gen(n)
				t.Stmts = append(t.Stmts, sql)
				logStmt(fmt.Sprintf("c%d T%d: %s", c, t.N, clip(sql)))
				res := db.Exec(tx, sql)
				stat("statements")
				if res.Err != nil {
					fail("statement error: " + res.Err.Error())
					db.Abort(tx)
					t.AbortRet = rc.MarkIdx("ABORT-RET", t.N)
					return
				}
				if res.Aborted {
					db.Abort(tx)
					t.AbortRet = rc.MarkIdx("ABORT-RET", t.N)
					t.Conflict = true
					stat("unexpected_aborts")
					stat("aborts")
					aborted = true
					break
				}
				apply(ops)
				if p.ThinkTime > 0 && lr.Intn(3) == 0 {
					time.Sleep(time.Duration(lr.Int63n(int64(p.ThinkTime))))
				}
			}
			if aborted {
				continue
			}
			abortP := 25
			if p.Bias == "loser" {
				abortP = 50
			}
			if lr.Intn(100) < abortP {
				db.Abort(tx)
				t.AbortRet = rc.MarkIdx("ABORT-RET", t.N)
				stat("aborts")
				continue
			}
			t.CommitCall = rc.MarkIdx("COMMIT-CALL", t.N)
			db.Commit(tx)
			t.CommitRet = rc.MarkIdx("COMMIT-RET", t.N)
			commitModel()
			stat("commits")
			if len(t.Ops) > 0 {
				stat("writing_commits")
			}
		}
	}
	for c := 0; c < p.Clients; c++ {
		wg.Add(1)
		go client(c, rand.New(rand.NewSource(r.Int63())))
	}
	if p.Checkpoint {
		wg.Add(1)
		n := 1 + r.Intn(3)
		go func() {
			defer wg.Done()
			defer func() {
				if x := recover(); x != nil {
					mu.Lock()
					if fatal == "" {
						fatal = fmt.Sprintf("checkpointer: %v", x)
					}
					stopAll = true
					mu.Unlock()
				}
			}()
			for i := 0; i < n && !stopped(); i++ {
				time.Sleep(time.Duration(2+i*3) * time.Millisecond)
				rc.Mark("CKPT-BEGIN", 0)
				db.S.ForceCheckpointingForTestcase()
				rc.Mark("CKPT-END", 0)
				stat("checkpoints")
			}
		}()
	}
	wg.Wait()
	if fatal != "" {
		h.Events = rc.Events
		return h, fatal
	}
	func() {
		defer func() {
			if x := recover(); x != nil {
				fatal = "final scan: " + fmt.Sprint(x)
			}
		}()
		for _, td := range p.Tables {
			var want []rm.Row
			for c := range cs {
				for _, row := range cs[c].rows[td.Name] {
					want = append(want, row)
				}
			}
			res := db.ScanAllAuto(td.Name)
			if d := rm.DiffMultiset(res.Rows, want, nil); d != "" {
				h.LiveDiff = fmt.Sprintf("table %s: %s", td.Name, d)
			}
		}
		db.S.GetSamehadaInstance().GetLogManager().Flush()
	}()
	h.Events = rc.Events
	rc.On = false
	if p.OnQuiescent != nil && h.LiveDiff == "" && fatal == "" {
		q := &Quiescent{DB: db, Model: map[string][]rm.Row{}, Ended: h.Txns}
		for _, td := range p.Tables {
			for c := range cs {
				for _, row := range cs[c].rows[td.Name] {
					q.Model[td.Name] = append(q.Model[td.Name], row)
				}
			}
		}
		for c := range cs {
			for id := int32((c + 1) * 100000); id < cs[c].nextID; id++ {
				q.IDs = append(q.IDs, id)
			}
			if cs[c].nextID > q.MaxID {
				q.MaxID = cs[c].nextID
			}
		}
		p.OnQuiescent(q)
	}
	func() {
		defer func() { recover() }()
		db.S.ShutdownForTescase()
	}()
	_ = strings.Join
	return h, fatal
}
