// Package crashlab: history generator under the I/O recorder, committed-state oracle, crash-image recovery runner.
package crashlab

import (
	"fmt"
	"math/rand"
	"sort"
	"strings"
	"time"

	"github.com/ryogrid/SamehadaDB/lib/storage/access"

	"verifharness/internal/rec"
	rm "verifharness/internal/refmodel"
	"verifharness/internal/sqlx"
)

// TableDef describes one generated table: id INT (unique per logical row), k INT, v VARCHAR.
type TableDef struct {
	Name string   `json:"name"`
	Via  string   `json:"via"`
	Idx  []string `json:"idx"`
}

var Cols = []rm.Col{{Name: "id", K: rm.KInt}, {Name: "k", K: rm.KInt}, {Name: "v", K: rm.KStr}}

// Op is one logical effect of a transaction on a row.
type Op struct {
	Table string `json:"t"`
	Kind  string `json:"op"` // ins | upd | del
	ID    int32  `json:"id"`
	Row   rm.Row `json:"row,omitempty"` // new row for ins / upd (upd may change the id)
}

// Txn is the harness's record of one transaction.
type Txn struct {
	N          int      `json:"n"`
	Ops        []Op     `json:"ops"`
	Stmts      []string `json:"stmts"`
	Begin      int      `json:"begin"`       // event index of the BEGIN marker
	CommitCall int      `json:"commit_call"` // -1 if never
	CommitRet  int      `json:"commit_ret"`  // -1 if never
	AbortRet   int      `json:"abort_ret"`   // -1 if never
	Auto       bool     `json:"auto,omitempty"`
	Conflict   bool     `json:"conflict,omitempty"` // ended by a conflict abort
}

// Params of a history.
type Params struct {
	MemKB         int
	Tables        []TableDef
	Steps         int
	MaxOpen       int
	MaxPayload    int    // longest v
	Bias          string // "commit" (C01) or "loser" (C02)
	Checkpoint    bool
	RowSizes      []int
	File          bool // file-backed disk manager for the live run (needed for clean shutdown / reopen)
	CleanShutdown bool // end the live run with SamehadaDB.Shutdown() (flush + graceful-shutdown record) instead of closing the files
	NoUpdate      bool // never generate UPDATE (tables with a hash index: UpdateEntry is unimplemented there)
	PreEpochs     int  // see Run
	// Joins: with two tables, now and then a hash join between them at a quiescent point (its temp pages are deallocated
	// at once, so page ids wait for reuse while later transactions allocate pages)
	Joins bool
	// BulkUpdates: some UPDATE statements change the indexed column k of EVERY row of a table (one statement dirties many heap
	// pages and restructures the index on k before anything is flushed)
	BulkUpdates bool
	// BigTxnRows > 0: instead of the random walk, preload that many wide rows (auto-commit, before SetupEnd), then run
	// transactions that each change EVERY row in one statement, so that a single transaction appends more log than the
	// log buffer holds (LogBufferSize = 129 pages) with no commit, eviction or checkpoint flushing in between
	BigTxnRows int
	// BigTxnDeletes: half of the big transactions delete every row instead (and are aborted most of the time)
	BigTxnDeletes bool
	// concurrent histories (RunConcurrent)
	Clients      int
	ConcurrentIO bool          // recorder does not serialise the engine's I/O calls (see rec.Recorder.Concurrent)
	LogDelay     time.Duration // extra latency of every log write in ConcurrentIO mode
	ThinkTime    time.Duration // upper bound of random pauses between the statements of a transaction
	// OnQuiescent is called whenever no transaction is open right after a transaction ended. Returning false stops the history.
	OnQuiescent func(q *Quiescent) bool
}

// Quiescent describes a point of the history at which no transaction is in progress.
type Quiescent struct {
	DB    *sqlx.DB
	Model map[string][]rm.Row // committed rows per table
	Ended []*Txn              // transactions that ended since the previous quiescent point
	MaxID int32               // all ids ever used are in 1..MaxID
	IDs   []int32             // if set: exactly the ids ever used (sparse id spaces of concurrent histories)
}

// History is the result of running a generated workload under the recorder.
type History struct {
	P          Params
	Events     []rec.Event
	Txns       []*Txn
	Base       *rec.Image // files at the moment the recorder was installed (nil: fresh database)
	SetupEnd   int        // events before this index belong to database / table creation
	LiveDiff   string     // non-empty: the live final state differed from the model (the history is not used for crash checking)
	Stats      map[string]int64
	StmtLog    []string
	EndedEarly string
}

type openTxn struct {
	t       *Txn
	h       *access.Transaction
	overlay map[string]map[int32]*rm.Row // nil row = deleted
}

type runner struct {
	r       *rand.Rand
	db      *sqlx.DB
	rc      *rec.Recorder
	p       Params
	h       *History
	commit  map[string]map[int32]rm.Row
	owner   map[string]map[int32]int // id -> open txn number that wrote it
	open    []*openTxn
	nextID  int32
	nTxn    int
	ended   []*Txn
	stop    bool
	squeeze bool
}

// Payload is payload for other packages.
func Payload(r *rand.Rand, sizes []int, max int, tag string) string { return payload(r, sizes, max, tag) }

func payload(r *rand.Rand, sizes []int, max int, tag string) string {
	n := sizes[r.Intn(len(sizes))]
	if n > max {
		n = max
	}
	s := tag
	if len(s) >= n {
		return s[:n]
	}
	return s + strings.Repeat(string(rune('a'+r.Intn(26))), n-len(s))
}

// Run executes a generated history on a fresh database at path (in-memory disk manager, recorded).
// With p.PreEpochs > 0 the recorded history does not start on a fresh database: the tables are created and filled in an
// earlier, unrecorded session that ends like a crash; PreEpochs-1 idle sessions (start-up, one read, crash-like close)
// follow; only then the recorder is installed and the database is opened again (History.Base = the files at that moment).
func Run(r *rand.Rand, path string, p Params) (h *History, fatal string) {
	if p.PreEpochs > 0 {
		p.File = true
	}
	h = &History{P: p, Stats: map[string]int64{}}
	rn := &runner{r: r, p: p, h: h, commit: map[string]map[int32]rm.Row{}, owner: map[string]map[int32]int{}, nextID: 1}
	for _, t := range p.Tables {
		rn.commit[t.Name] = map[int32]rm.Row{}
		rn.owner[t.Name] = map[int32]int{}
	}
	create := func(db *sqlx.DB) string {
		for _, t := range p.Tables {
			if t.Via == "sql" {
				if err := db.CreateTableSQL(t.Name, Cols); err != nil {
					return "create table: " + err.Error()
				}
			} else {
				db.CreateTableAPI(t.Name, Cols, t.Idx)
			}
		}
		return ""
	}
	if p.PreEpochs > 0 {
		msg := func() (msg string) {
			defer func() {
				if x := recover(); x != nil {
					msg = "earlier session panicked: " + fmt.Sprint(x)
				}
			}()
			sqlx.RemoveFiles(path)
			db0 := sqlx.Open(path, p.MemKB, sqlx.Options{File: true})
			if m := create(db0); m != "" {
				return m
			}
			rn.db, rn.rc = db0, &rec.Recorder{}
			for i := 8 + r.Intn(25); i > 0; i-- {
				if !rn.auto() {
					return "earlier session: " + h.EndedEarly
				}
			}
			db0.S.ShutdownForTescase()
			for e := 1; e < p.PreEpochs; e++ {
				dbi := sqlx.Open(path, p.MemKB, sqlx.Options{File: true})
				dbi.ScanAllAuto(p.Tables[0].Name)
				dbi.S.ShutdownForTescase()
				h.Stats["idle_sessions_before_the_recorded_history"]++
			}
			return ""
		}()
		if msg != "" {
			return h, msg
		}
		// everything the earlier session committed counts as committed before the first recorded event
		for _, t := range h.Txns {
			t.Begin = 0
			if t.CommitRet >= 0 {
				t.CommitCall, t.CommitRet = 0, 0
			}
			if t.AbortRet >= 0 {
				t.AbortRet = 0
			}
		}
		h.Stats["histories_on_a_database_with_earlier_sessions"]++
		h.Base = rec.ReadFiles(path)
	}
	get := rec.Install()
	defer rec.Uninstall()
	db := sqlx.Open(path, p.MemKB, sqlx.Options{File: p.File})
	rc := get()
	rec.Uninstall()
	rn.db, rn.rc = db, rc
	defer func() {
		if x := recover(); x != nil {
			fatal = fmt.Sprint(x)
			h.Events = rc.Events
		}
	}()
	if p.PreEpochs == 0 {
		if m := create(db); m != "" {
			return h, m
		}
	}
	h.SetupEnd = rc.Len()
	if p.BigTxnRows > 0 {
		rn.bigTxn()
	} else {
		rn.run()
	}
	// finish: end all open transactions (commit or abort), then compare live state with the model
	for len(rn.open) > 0 {
		if r.Intn(2) == 0 {
			rn.commitTxn(0)
		} else {
			rn.abortTxn(0, false)
		}
	}
	for _, t := range p.Tables {
		res := db.ScanAllAuto(t.Name)
		if d := rm.DiffMultiset(res.Rows, rn.rows(t.Name), nil); d != "" {
			h.LiveDiff = fmt.Sprintf("table %s: %s", t.Name, d)
		}
	}
	// make sure every appended log record reaches the trace (used by the write-ahead rules)
	db.S.GetSamehadaInstance().GetLogManager().Flush()
	h.Events = rc.Events
	rc.On = false
	func() {
		defer func() {
			if x := recover(); x != nil && p.CleanShutdown {
				fatal = "clean shutdown panicked: " + fmt.Sprint(x)
			}
		}()
		if p.CleanShutdown {
			db.S.Shutdown()
		} else {
			db.S.ShutdownForTescase()
		}
	}()
	return h, fatal
}

func (rn *runner) rows(table string) []rm.Row {
	var ids []int
	for id := range rn.commit[table] {
		ids = append(ids, int(id))
	}
	sort.Ints(ids)
	out := make([]rm.Row, 0, len(ids))
	for _, id := range ids {
		out = append(out, rn.commit[table][int32(id)])
	}
	return out
}

// visible returns the row of id as seen by open txn o (nil = not visible), and whether another open txn owns it.
func (rn *runner) visible(o *openTxn, table string, id int32) (rm.Row, bool) {
	if ow, ok := rn.owner[table][id]; ok && (o == nil || ow != o.t.N) {
		return nil, true
	}
	if o != nil {
		if rp, ok := o.overlay[table][id]; ok {
			if rp == nil {
				return nil, false
			}
			return *rp, false
		}
	}
	if row, ok := rn.commit[table][id]; ok {
		return row, false
	}
	return nil, false
}

func (rn *runner) pickID(o *openTxn, table string, own bool) (int32, bool) {
	var cand []int
	seen := map[int32]bool{}
	if o != nil {
		for id, rp := range o.overlay[table] {
			seen[id] = true
			if rp != nil {
				cand = append(cand, int(id))
			}
		}
	}
	if !own || len(cand) == 0 {
		for id := range rn.commit[table] {
			if seen[id] {
				continue
			}
			if _, owned := rn.owner[table][id]; owned {
				continue
			}
			cand = append(cand, int(id))
		}
	}
	if len(cand) == 0 {
		return 0, false
	}
	sort.Ints(cand)
	return int32(cand[rn.r.Intn(len(cand))]), true
}

func (rn *runner) begin() *openTxn {
	rn.nTxn++
	t := &Txn{N: rn.nTxn, CommitCall: -1, CommitRet: -1, AbortRet: -1}
	t.Begin = rn.rc.Len()
	rn.rc.Mark("BEGIN", t.N)
	o := &openTxn{t: t, h: rn.db.Begin(), overlay: map[string]map[int32]*rm.Row{}}
	for _, td := range rn.p.Tables {
		o.overlay[td.Name] = map[int32]*rm.Row{}
	}
	rn.h.Txns = append(rn.h.Txns, t)
	rn.open = append(rn.open, o)
	rn.h.Stats["txns"]++
	return o
}

func (rn *runner) drop(i int) {
	o := rn.open[i]
	for _, td := range rn.p.Tables {
		for id, n := range rn.owner[td.Name] {
			if n == o.t.N {
				delete(rn.owner[td.Name], id)
			}
		}
	}
	rn.open = append(rn.open[:i], rn.open[i+1:]...)
}

func (rn *runner) commitTxn(i int) {
	o := rn.open[i]
	o.t.CommitCall = rn.rc.Len()
	rn.rc.Mark("COMMIT-CALL", o.t.N)
	rn.db.Commit(o.h)
	o.t.CommitRet = rn.rc.Len()
	rn.rc.Mark("COMMIT-RET", o.t.N)
	for table, ov := range o.overlay {
		for id, rp := range ov {
			if rp == nil {
				delete(rn.commit[table], id)
			} else {
				rn.commit[table][id] = *rp
			}
		}
	}
	rn.h.Stats["commits"]++
	if len(o.t.Ops) > 0 {
		rn.h.Stats["writing_commits"]++
	}
	rn.drop(i)
	rn.quiescent(o.t)
}

func (rn *runner) abortTxn(i int, conflict bool) {
	o := rn.open[i]
	rn.db.Abort(o.h)
	o.t.AbortRet = rn.rc.Len()
	o.t.Conflict = conflict
	rn.rc.Mark("ABORT-RET", o.t.N)
	rn.h.Stats["aborts"]++
	if conflict {
		rn.h.Stats["conflict_aborts"]++
	}
	rn.drop(i)
	rn.quiescent(o.t)
}

// stmt executes sql in open txn i; expectAbort = the harness expects a lock conflict. Returns false if the history must stop.
func (rn *runner) stmt(i int, sql string, expectAbort bool, apply func(o *openTxn)) bool {
	o := rn.open[i]
	o.t.Stmts = append(o.t.Stmts, sql)
	rn.h.StmtLog = append(rn.h.StmtLog, fmt.Sprintf("T%d: %s", o.t.N, clip(sql)))
	res := rn.db.Exec(o.h, sql)
	rn.h.Stats["statements"]++
	if res.Err != nil {
		rn.h.EndedEarly = "statement error: " + res.Err.Error()
		return false
	}
	if res.Aborted {
		rn.abortTxn(i, true)
		if !expectAbort {
			rn.h.Stats["unexpected_aborts"]++
		}
		return true
	}
	if expectAbort {
		// the engine let a statement through that touches a row another open transaction wrote:
		// the model cannot follow; stop here (isolation is judged by C04/C05, not by the crash lab)
		rn.h.EndedEarly = "conflict statement was not aborted"
		rn.h.Stats["conflict_not_aborted"]++
		return false
	}
	apply(o)
	return true
}

func clip(s string) string {
	if len(s) > 160 {
		return s[:120] + fmt.Sprintf("...(%d bytes)", len(s))
	}
	return s
}

func (rn *runner) quiescent(t *Txn) {
	rn.ended = append(rn.ended, t)
	if len(rn.open) != 0 || rn.p.OnQuiescent == nil {
		return
	}
	q := &Quiescent{DB: rn.db, Model: map[string][]rm.Row{}, Ended: rn.ended, MaxID: rn.nextID}
	for _, td := range rn.p.Tables {
		q.Model[td.Name] = rn.rows(td.Name)
	}
	rn.ended = nil
	if !rn.p.OnQuiescent(q) {
		rn.stop = true
	}
}

func (rn *runner) table() string { return rn.p.Tables[rn.r.Intn(len(rn.p.Tables))].Name }

func (rn *runner) write(o *openTxn, table, kind string, id int32, row rm.Row) {
	op := Op{Table: table, Kind: kind, ID: id}
	if row != nil {
		op.Row = row.Clone()
	}
	o.t.Ops = append(o.t.Ops, op)
	switch kind {
	case "ins":
		r2 := row.Clone()
		o.overlay[table][id] = &r2
		rn.owner[table][id] = o.t.N
	case "del":
		o.overlay[table][id] = nil
		rn.owner[table][id] = o.t.N
	case "upd":
		newID := row[0].I
		if newID != id {
			o.overlay[table][id] = nil
			rn.owner[table][id] = o.t.N
		}
		r2 := row.Clone()
		o.overlay[table][newID] = &r2
		rn.owner[table][newID] = o.t.N
	}
}

func (rn *runner) dml(i int) bool {
	r := rn.r
	o := rn.open[i]
	table := rn.table()
	tag := fmt.Sprintf("t%ds%d.", o.t.N, len(o.t.Stmts))
	lit := func(c rm.Cell) string { s, _ := c.SQLLit(); return s }
	c := r.Intn(12)
	if rn.p.NoUpdate && c >= 4 && c < 9 {
		c = []int{0, 9}[r.Intn(2)]
	}
	if rn.p.BulkUpdates && !rn.p.NoUpdate && r.Intn(4) == 0 {
		// every visible row of the table; another open transaction with writes on the table makes the statement conflict
		nk := int32(1000 + r.Intn(100000))
		conflict := false
		for _, other := range rn.open {
			if other != o && len(other.overlay[table]) > 0 {
				conflict = true
			}
		}
		seen := map[int32]bool{}
		var ids []int
		for id := range rn.commit[table] {
			if rp, ok := o.overlay[table][id]; ok && rp == nil {
				continue
			}
			seen[id] = true
			ids = append(ids, int(id))
		}
		for id, rp := range o.overlay[table] {
			if rp != nil && !seen[id] {
				ids = append(ids, int(id))
			}
		}
		sort.Ints(ids)
		rn.h.Stats["stmt_update_indexed_column_of_every_row"]++
		return rn.stmt(i, fmt.Sprintf("UPDATE %s SET k = %d WHERE id >= 0;", table, nk), conflict, func(o *openTxn) {
			for _, idi := range ids {
				old, _ := rn.visible(o, table, int32(idi))
				if old == nil {
					continue
				}
				nr := old.Clone()
				nr[1] = rm.Int(nk)
				rn.write(o, table, "upd", int32(idi), nr)
			}
		})
	}
	switch {
	case c < 4: // insert (1-3 rows)
		n := 1
		if r.Intn(4) == 0 {
			n = 2 + r.Intn(2)
		}
		var rows []rm.Row
		for j := 0; j < n; j++ {
			id := rn.nextID
			rn.nextID++
			rows = append(rows, rm.Row{rm.Int(id), rm.Int(int32(r.Intn(50))), rm.Str(payload(r, rn.p.RowSizes, rn.p.MaxPayload, tag))})
		}
		sql, _ := sqlx.InsertSQL(table, Cols, rows)
		rn.h.Stats["stmt_insert"]++
		return rn.stmt(i, sql, false, func(o *openTxn) {
			for _, row := range rows {
				rn.write(o, table, "ins", row[0].I, row)
			}
		})
	case c < 9: // update
		own := r.Intn(3) == 0
		id, ok := rn.pickID(o, table, own)
		if !ok {
			return true
		}
		old, _ := rn.visible(o, table, id)
		if old == nil {
			return true
		}
		nr := old.Clone()
		var sets []string
		mode := r.Intn(6)
		switch mode {
		case 5: // an indexed column is assigned the value it already holds while another column changes the row's size (the row moves, its keys do not)
			if r.Intn(2) == 0 {
				sets = append(sets, "k = "+lit(nr[1]))
			} else {
				sets = append(sets, "id = "+lit(nr[0]))
			}
			n := len(old[2].S) - 1 - r.Intn(20)
			if r.Intn(2) == 0 {
				n = len(old[2].S) + 1 + r.Intn(600)
			}
			if n < 0 {
				n = 0
			}
			nr[2] = rm.Str(payload(r, []int{n}, rn.p.MaxPayload, tag))
			sets = append(sets, "v = "+lit(nr[2]))
			if r.Intn(2) == 0 {
				sets[0], sets[1] = sets[1], sets[0]
			}
			rn.h.Stats["stmt_update_same_key_and_size_change"]++
		case 0: // in place, same size
			nr[2] = rm.Str(payload(r, []int{len(old[2].S)}, rn.p.MaxPayload, tag))
			sets = append(sets, "v = "+lit(nr[2]))
			rn.h.Stats["stmt_update_same_size"]++
		case 1: // grow
			nr[2] = rm.Str(payload(r, []int{len(old[2].S) + 1 + r.Intn(600)}, rn.p.MaxPayload, tag))
			sets = append(sets, "v = "+lit(nr[2]))
			rn.h.Stats["stmt_update_grow"]++
		case 2: // shrink (always relocates): by a few bytes, or down to a fraction (frees space that others can take)
			n := len(old[2].S) - 1 - r.Intn(20)
			if r.Intn(2) == 0 {
				n = r.Intn(len(old[2].S)/4 + 1)
				rn.squeeze = true // often followed by other transactions' inserts, see run
			}
			if n < 0 {
				n = 0
			}
			nr[2] = rm.Str(payload(r, []int{n}, rn.p.MaxPayload, tag))
			sets = append(sets, "v = "+lit(nr[2]))
			rn.h.Stats["stmt_update_shrink"]++
		case 3: // non-key int column
			nr[1] = rm.Int(int32(r.Intn(1000)))
			sets = append(sets, "k = "+lit(nr[1]))
			rn.h.Stats["stmt_update_int"]++
		default: // key change
			nid := rn.nextID
			rn.nextID++
			nr[0] = rm.Int(nid)
			sets = append(sets, "id = "+lit(nr[0]))
			rn.h.Stats["stmt_update_key"]++
			if r.Intn(3) == 0 {
				// ... and in the same statement another column changes the row's size: the key changes AND the row moves
				n := len(old[2].S) - 1 - r.Intn(20)
				if r.Intn(2) == 0 {
					n = len(old[2].S) + 1 + r.Intn(600)
				}
				if n < 0 {
					n = 0
				}
				nr[2] = rm.Str(payload(r, []int{n}, rn.p.MaxPayload, tag))
				sets = append(sets, "v = "+lit(nr[2]))
				if r.Intn(2) == 0 {
					sets[0], sets[1] = sets[1], sets[0]
				}
				rn.h.Stats["stmt_update_key_and_size_change"]++
			}
		}
		sql := fmt.Sprintf("UPDATE %s SET %s WHERE id = %d;", table, strings.Join(sets, ", "), id)
		return rn.stmt(i, sql, false, func(o *openTxn) { rn.write(o, table, "upd", id, nr) })
	case c < 11: // delete
		id, ok := rn.pickID(o, table, r.Intn(3) == 0)
		if !ok {
			return true
		}
		sql := fmt.Sprintf("DELETE FROM %s WHERE id = %d;", table, id)
		rn.h.Stats["stmt_delete"]++
		return rn.stmt(i, sql, false, func(o *openTxn) { rn.write(o, table, "del", id, nil) })
	default: // conflict: touch a row another open transaction wrote
		for _, other := range rn.open {
			if other == o {
				continue
			}
			var oids []int
			for id := range other.overlay[table] {
				oids = append(oids, int(id))
			}
			sort.Ints(oids)
			for _, idi := range oids {
				id := int32(idi)
				sql := fmt.Sprintf("UPDATE %s SET k = 7 WHERE id = %d;", table, id)
				if r.Intn(2) == 0 || rn.p.NoUpdate {
					sql = fmt.Sprintf("DELETE FROM %s WHERE id = %d;", table, id)
				}
				if r.Intn(3) == 0 && !rn.p.NoUpdate {
					// a multi-row statement on the scan path: it changes the rows in front of the foreign-locked one and then hits
					// the lock half way; the abort has to take back the rows it had already changed
					sql = fmt.Sprintf("UPDATE %s SET k = %d WHERE id >= 0 OR id < 0;", table, 2000+r.Intn(1000))
					if r.Intn(3) == 0 {
						sql = fmt.Sprintf("DELETE FROM %s WHERE id >= 0 OR id < 0;", table)
					}
					rn.h.Stats["stmt_conflict_half_way_through_a_scan"]++
				}
				rn.h.Stats["stmt_conflict"]++
				return rn.stmt(i, sql, true, func(o *openTxn) {})
			}
		}
		return true
	}
}

func (rn *runner) auto() bool { return rn.autoKind(false, -1) }

// autoKind: one auto-commit statement; insertOnly forces an INSERT; size >= 0 fixes the length of the inserted string.
func (rn *runner) autoKind(insertOnly bool, size int) bool {
	// one auto-commit statement through the engine's own ExecuteSQLRetValues
	r := rn.r
	table := rn.table()
	rn.nTxn++
	t := &Txn{N: rn.nTxn, CommitCall: -1, CommitRet: -1, AbortRet: -1, Auto: true}
	tag := fmt.Sprintf("t%da.", t.N)
	var sql string
	var op Op
	if id, ok := rn.pickID(nil, table, false); ok && r.Intn(2) == 0 && !insertOnly {
		old := rn.commit[table][id]
		if r.Intn(3) == 0 || rn.p.NoUpdate {
			sql = fmt.Sprintf("DELETE FROM %s WHERE id = %d;", table, id)
			op = Op{Table: table, Kind: "del", ID: id}
		} else {
			nr := old.Clone()
			nr[2] = rm.Str(payload(r, rn.p.RowSizes, rn.p.MaxPayload, tag))
			l, _ := nr[2].SQLLit()
			sql = fmt.Sprintf("UPDATE %s SET v = %s WHERE id = %d;", table, l, id)
			op = Op{Table: table, Kind: "upd", ID: id, Row: nr}
		}
	} else {
		id := rn.nextID
		rn.nextID++
		sizes := rn.p.RowSizes
		if size >= 0 {
			sizes = []int{size}
		}
		row := rm.Row{rm.Int(id), rm.Int(int32(r.Intn(50))), rm.Str(payload(r, sizes, rn.p.MaxPayload, tag))}
		sql, _ = sqlx.InsertSQL(table, Cols, []rm.Row{row})
		op = Op{Table: table, Kind: "ins", ID: id, Row: row}
	}
	t.Stmts = []string{sql}
	t.Begin = rn.rc.Len()
	rn.rc.Mark("BEGIN", t.N)
	t.CommitCall = rn.rc.Len()
	rn.rc.Mark("COMMIT-CALL", t.N)
	rn.h.StmtLog = append(rn.h.StmtLog, fmt.Sprintf("T%d(auto): %s", t.N, clip(sql)))
	res := rn.db.Auto(sql)
	rn.h.Txns = append(rn.h.Txns, t)
	rn.h.Stats["auto_statements"]++
	if res.Err != nil {
		rn.h.EndedEarly = "auto statement error: " + res.Err.Error()
		return false
	}
	if res.Aborted {
		t.CommitCall = -1
		t.AbortRet = rn.rc.Len()
		rn.rc.Mark("ABORT-RET", t.N)
		rn.h.Stats["unexpected_aborts"]++
		rn.quiescent(t)
		return true
	}
	t.CommitRet = rn.rc.Len()
	rn.rc.Mark("COMMIT-RET", t.N)
	t.Ops = []Op{op}
	switch op.Kind {
	case "del":
		delete(rn.commit[table], op.ID)
	default:
		rn.commit[table][op.Row[0].I] = op.Row
	}
	rn.h.Stats["commits"]++
	rn.h.Stats["writing_commits"]++
	rn.quiescent(t)
	return true
}

// bigTxn: see Params.BigTxnRows.
func (rn *runner) bigTxn() {
	r := rn.r
	table := rn.p.Tables[0].Name
	for n := 0; n < rn.p.BigTxnRows && rn.h.EndedEarly == ""; {
		rn.nTxn++
		t := &Txn{N: rn.nTxn, CommitCall: -1, CommitRet: -1, AbortRet: -1, Auto: true}
		var rows []rm.Row
		for j := 0; j < 8 && n < rn.p.BigTxnRows; j++ {
			id := rn.nextID
			rn.nextID++
			n++
			rows = append(rows, rm.Row{rm.Int(id), rm.Int(int32(r.Intn(50))), rm.Str(payload(r, rn.p.RowSizes, rn.p.MaxPayload, fmt.Sprintf("pre%d.", id)))})
		}
		sql, _ := sqlx.InsertSQL(table, Cols, rows)
		t.Stmts = []string{clip(sql)}
		t.Begin = rn.rc.Len()
		rn.rc.Mark("BEGIN", t.N)
		t.CommitCall = rn.rc.Len()
		rn.rc.Mark("COMMIT-CALL", t.N)
		res := rn.db.Auto(sql)
		rn.h.Txns = append(rn.h.Txns, t)
		if res.Err != nil || res.Aborted {
			rn.h.EndedEarly = fmt.Sprintf("preload failed: %v aborted=%v", res.Err, res.Aborted)
			return
		}
		t.CommitRet = rn.rc.Len()
		rn.rc.Mark("COMMIT-RET", t.N)
		for _, row := range rows {
			t.Ops = append(t.Ops, Op{Table: table, Kind: "ins", ID: row[0].I, Row: row})
			rn.commit[table][row[0].I] = row
		}
		rn.h.Stats["preloaded_rows"] += int64(len(rows))
	}
	if rn.p.Checkpoint {
		rn.db.S.ForceCheckpointingForTestcase()
	}
	rn.h.SetupEnd = rn.rc.Len()
	updateAll := func(i int) bool {
		o := rn.open[i]
		nk := int32(1000 + r.Intn(100000))
		var ids []int
		for id := range rn.commit[table] {
			ids = append(ids, int(id))
		}
		for id, rp := range o.overlay[table] {
			if rp != nil {
				if _, ok := rn.commit[table][id]; !ok {
					ids = append(ids, int(id))
				}
			}
		}
		sort.Ints(ids)
		rn.h.Stats["stmt_update_every_row"]++
		return rn.stmt(i, fmt.Sprintf("UPDATE %s SET k = %d WHERE id >= 0;", table, nk), false, func(o *openTxn) {
			for _, idi := range ids {
				old, _ := rn.visible(o, table, int32(idi))
				if old == nil {
					continue
				}
				nr := old.Clone()
				nr[1] = rm.Int(nk)
				rn.write(o, table, "upd", int32(idi), nr)
			}
		})
	}
	deleteAll := func(i int) bool {
		o := rn.open[i]
		var ids []int
		for id := range rn.commit[table] {
			ids = append(ids, int(id))
		}
		for id, rp := range o.overlay[table] {
			if rp != nil {
				if _, ok := rn.commit[table][id]; !ok {
					ids = append(ids, int(id))
				}
			}
		}
		sort.Ints(ids)
		rn.h.Stats["stmt_delete_every_row"]++
		return rn.stmt(i, fmt.Sprintf("DELETE FROM %s WHERE id >= 0;", table), false, func(o *openTxn) {
			for _, idi := range ids {
				if old, _ := rn.visible(o, table, int32(idi)); old != nil {
					rn.write(o, table, "del", int32(idi), nil)
				}
			}
		})
	}
	rounds := 2 + r.Intn(2)
	if rn.p.BigTxnDeletes {
		rounds += 2
	}
	for round := 0; round < rounds && !rn.stop && rn.h.EndedEarly == ""; round++ {
		rn.begin()
		if rn.p.BigTxnDeletes && r.Intn(2) == 0 {
			// (ended by an abort most of the time: a committed one empties the table for the rest of the history)
			if !deleteAll(0) {
				return
			}
			if len(rn.open) > 0 {
				if r.Intn(8) == 0 {
					rn.commitTxn(0)
				} else {
					rn.abortTxn(0, false)
				}
			}
			continue
		}
		if !updateAll(0) {
			return
		}
		// a few more statements in the same transaction
		for k := r.Intn(4); k > 0 && len(rn.open) > 0; k-- {
			if !rn.dml(0) {
				return
			}
		}
		if len(rn.open) == 0 {
			continue // ended by an unexpected abort
		}
		abortP := 20
		if rn.p.Bias == "loser" {
			abortP = 50
		}
		switch {
		case round == rounds-1 && r.Intn(2) == 0:
			// left open: ended by the common epilogue of Run (a loser at every crash point until then)
		case r.Intn(100) < abortP:
			rn.abortTxn(0, false)
		default:
			rn.commitTxn(0)
		}
		if len(rn.open) == 0 && rn.p.Checkpoint && r.Intn(2) == 0 {
			// a checkpoint right after the big transaction ended (its last records may still sit in the log buffer, one of them
			// having straddled the end of the previous buffer)
			rn.rc.Mark("CKPT-BEGIN", 0)
			rn.db.S.ForceCheckpointingForTestcase()
			rn.rc.Mark("CKPT-END", 0)
			rn.h.Stats["checkpoints"]++
			rn.h.Stats["checkpoints_right_after_a_big_transaction"]++
		}
		if len(rn.open) == 0 && r.Intn(2) == 0 {
			if !rn.auto() {
				return
			}
		}
	}
}

func (rn *runner) run() {
	r := rn.r
	for step := 0; step < rn.p.Steps && !rn.stop; step++ {
		c := r.Intn(100)
		if rn.squeeze {
			rn.squeeze = false
			if len(rn.open) > 0 && r.Intn(2) == 0 {
				c = 99
			}
		}
		switch {
		case len(rn.open) == 0 && c < 15:
			if !rn.auto() {
				return
			}
		case c >= 86 && c < 96 && rn.p.Joins && len(rn.p.Tables) >= 2:
			// (in a transaction of its own, also while others are open: it may abort on their row locks)
			a, b := rn.p.Tables[0].Name, rn.p.Tables[1].Name
			// the wide column is part of the answer: the build side fills one temp page per row or two
			sql := fmt.Sprintf("SELECT %s.id, %s.v, %s.id, %s.v FROM %s, %s WHERE %s.k = %s.k;", a, a, b, b, a, b, a, b)
			rn.h.StmtLog = append(rn.h.StmtLog, "join: "+sql)
			rn.db.Auto(sql)
			rn.h.Stats["join_statements"]++
		case len(rn.open) == 0 && c < 22 && rn.p.Checkpoint:
			rn.rc.Mark("CKPT-BEGIN", 0)
			rn.db.S.ForceCheckpointingForTestcase()
			rn.rc.Mark("CKPT-END", 0)
			rn.h.Stats["checkpoints"]++
		case len(rn.open) > 0 && c >= 96:
			// other transactions commit inserts while this one is open: space that the open transaction's shrinking updates
			// and deletes released (or still reserve) on its pages is what they compete for
			// rows of decreasing size pack the current page to the last few bytes
			big := rn.p.RowSizes[len(rn.p.RowSizes)-1]
			if big > rn.p.MaxPayload {
				big = rn.p.MaxPayload
			}
			for _, sz := range []int{big, big, big / 2, big / 2, big / 4, big / 4, 60, 60, 24, 24, 8, 8, 8, 8}[r.Intn(4):] {
				if !rn.autoKind(true, sz) {
					return
				}
			}
			rn.h.Stats["insert_bursts_next_to_open_transactions"]++
		case len(rn.open) < rn.p.MaxOpen && (len(rn.open) == 0 || c < 25):
			rn.begin()
		case c < 70 || (rn.p.Bias == "loser" && c < 82):
			i := r.Intn(len(rn.open))
			if !rn.dml(i) {
				return
			}
		default:
			i := r.Intn(len(rn.open))
			abortP := 25
			if rn.p.Bias == "loser" {
				abortP = 50
			}
			if r.Intn(100) < abortP {
				rn.abortTxn(i, false)
			} else {
				rn.commitTxn(i)
			}
		}
	}
}
