// Package sqlx drives the real engine: open/close databases, execute SQL with an explicit transaction
// handle (the body of ExecuteSQLRetValues minus Begin/Commit), plan-level DML for values the SQL front end
// cannot express, plan shapes, statistics updates.
package sqlx

import (
	"fmt"
	"os"
	"strings"
	"sync"

	"github.com/ryogrid/SamehadaDB/lib/catalog"
	"github.com/ryogrid/SamehadaDB/lib/common"
	"github.com/ryogrid/SamehadaDB/lib/concurrency"
	"github.com/ryogrid/SamehadaDB/lib/execution/executors"
	"github.com/ryogrid/SamehadaDB/lib/execution/plans"
	"github.com/ryogrid/SamehadaDB/lib/parser"
	"github.com/ryogrid/SamehadaDB/lib/planner"
	"github.com/ryogrid/SamehadaDB/lib/planner/optimizer"
	"github.com/ryogrid/SamehadaDB/lib/samehada"
	"github.com/ryogrid/SamehadaDB/lib/storage/access"
	"github.com/ryogrid/SamehadaDB/lib/storage/buffer"
	"github.com/ryogrid/SamehadaDB/lib/storage/index/index_constants"
	"github.com/ryogrid/SamehadaDB/lib/storage/table/column"
	"github.com/ryogrid/SamehadaDB/lib/storage/table/schema"
	"github.com/ryogrid/SamehadaDB/lib/storage/tuple"
	"github.com/ryogrid/SamehadaDB/lib/types"

	"verifharness/internal/refmodel"
)

type DB struct {
	S    *samehada.SamehadaDB
	Path string
	Cat  *catalog.Catalog
	BPM  *buffer.BufferPoolManager
	TM   *access.TransactionManager
	eng  *executors.ExecutionEngine
}

var quietOnce sync.Once

// Quiet redirects the engine's chatter (fmt.Println in many places) away from the child's log when VERIF_VERBOSE is unset.
// The engine writes to os.Stdout; panics go to stderr, which stays.
func Quiet() {
	quietOnce.Do(func() {
		if os.Getenv("VERIF_VERBOSE") == "" {
			if f, err := os.OpenFile("/dev/null", os.O_WRONLY, 0); err == nil {
				os.Stdout = f
			}
		}
	})
}

// Options for Open.
type Options struct {
	File       bool // file-backed DiskManagerImpl (persistence) instead of the in-memory virtual disk
	Background bool // leave checkpoint / statistics goroutines on
}

// Open creates or reopens a database. path is the file name without extension.
func Open(path string, memKB int, o Options) *DB {
	Quiet()
	common.TempSuppressOnMemStorage = o.File
	concurrency.VerifDisableBackgroundThreads = !o.Background
	s := samehada.NewSamehadaDB(path, memKB)
	d := &DB{S: s, Path: path}
	d.Cat = s.GetCatalogForTesting()
	shi := s.GetSamehadaInstance()
	d.BPM = shi.GetBufferPoolManager()
	d.TM = shi.GetTransactionManager()
	d.eng = &executors.ExecutionEngine{}
	return d
}

func (d *DB) Begin() *access.Transaction { return d.TM.Begin(nil) }
func (d *DB) Commit(t *access.Transaction) { d.TM.Commit(d.Cat, t) }
func (d *DB) Abort(t *access.Transaction)  { d.TM.Abort(d.Cat, t) }

// Result of one statement.
type Result struct {
	Rows    []refmodel.Row
	Aborted bool   // the statement set its transaction to ABORTED (caller must call Abort)
	Err     error  // parse / rewrite / plan error: nothing was executed
	Shape   string // plan shape
	RIDs    []string
}

// Exec executes one statement inside txn (the body of ExecuteSQLRetValues without Begin/Commit/Abort).
func (d *DB) Exec(txn *access.Transaction, sql string) Result {
	qi, err := parser.ProcessSQLStr(&sql)
	if err != nil {
		return Result{Err: err}
	}
	qi, err = optimizer.RewriteQueryInfo(d.Cat, qi)
	if err != nil {
		return Result{Err: err}
	}
	err, plan := planner.NewSimplePlanner(d.Cat, d.BPM).MakePlan(qi, txn)
	if err != nil {
		return Result{Err: err}
	}
	if plan == nil {
		if *qi.QueryType == parser.CreateTable {
			return Result{Shape: "CreateTable"}
		}
		return Result{Err: samehada.PlanCreationErr}
	}
	return d.ExecPlan(txn, plan)
}

// ExecLimited plans a SELECT as Exec does and runs it below a LimitPlanNode built through the plan API (the SQL front end
// parses LIMIT but never plans it): the parent stops pulling after n rows, so the executors below are abandoned half way.
func (d *DB) ExecLimited(txn *access.Transaction, sql string, n uint32) Result {
	qi, err := parser.ProcessSQLStr(&sql)
	if err != nil {
		return Result{Err: err}
	}
	if *qi.QueryType != parser.SELECT {
		return Result{Err: samehada.PlanCreationErr}
	}
	qi, err = optimizer.RewriteQueryInfo(d.Cat, qi)
	if err != nil {
		return Result{Err: err}
	}
	err, plan := planner.NewSimplePlanner(d.Cat, d.BPM).MakePlan(qi, txn)
	if err != nil || plan == nil {
		return Result{Err: samehada.PlanCreationErr}
	}
	return d.ExecPlan(txn, plans.NewLimitPlanNode(plan, n, 0))
}

// ExecPlan executes a plan inside txn.
func (d *DB) ExecPlan(txn *access.Transaction, plan plans.Plan) Result {
	res := Result{Shape: PlanShape(plan)}
	ctx := executors.NewExecutorContext(d.Cat, d.BPM, txn)
	tuples := d.eng.Execute(plan, ctx)
	if txn.GetState() == access.ABORTED {
		res.Aborted = true
		return res
	}
	sc := plan.OutputSchema()
	if sc == nil {
		return res
	}
	for _, t := range tuples {
		res.Rows = append(res.Rows, TupleToRow(t, sc))
	}
	return res
}

// Auto executes one auto-commit statement through the engine's own entry point ExecuteSQLRetValues.
func (d *DB) Auto(sql string) Result {
	err, vals := d.S.ExecuteSQLRetValues(sql)
	if err == samehada.QueryAbortedErr {
		return Result{Aborted: true}
	}
	if err != nil {
		return Result{Err: err}
	}
	res := Result{}
	for _, r := range vals {
		row := make(refmodel.Row, len(r))
		for i, v := range r {
			row[i] = ValueToCell(v)
		}
		res.Rows = append(res.Rows, row)
	}
	return res
}

// PlanOf returns the plan shape the planner would choose for sql right now (nothing is executed).
func (d *DB) PlanOf(sql string) (string, error) {
	qi, err := parser.ProcessSQLStr(&sql)
	if err != nil {
		return "", err
	}
	qi, err = optimizer.RewriteQueryInfo(d.Cat, qi)
	if err != nil {
		return "", err
	}
	txn := d.Begin()
	defer d.Commit(txn)
	err, plan := planner.NewSimplePlanner(d.Cat, d.BPM).MakePlan(qi, txn)
	if err != nil || plan == nil {
		return "", fmt.Errorf("no plan: %v", err)
	}
	return PlanShape(plan), nil
}

var planNames = map[plans.PlanType]string{
	plans.SeqScan: "SeqScan", plans.Insert: "Insert", plans.Delete: "Delete", plans.Limit: "Limit", plans.IndexPointScan: "IndexPointScan",
	plans.IndexRangeScan: "IndexRangeScan", plans.NestedLoopJoin: "NestedLoopJoin", plans.HashJoin: "HashJoin", plans.IndexJoin: "IndexJoin",
	plans.Aggregation: "Aggregation", plans.Orderby: "Orderby", plans.Projection: "Projection", plans.Selection: "Selection",
}

// PlanShape renders the plan tree from GetType()/GetChildren() only (GetDebugStr panics for some nodes).
func PlanShape(p plans.Plan) (s string) {
	defer func() {
		if r := recover(); r != nil {
			s = "?"
		}
	}()
	if p == nil {
		return "nil"
	}
	name := planNames[p.GetType()]
	switch p.(type) {
	case *plans.UpdatePlanNode:
		name = "Update"
	}
	ch := p.GetChildren()
	if len(ch) == 0 {
		return name
	}
	parts := make([]string, 0, len(ch))
	for _, c := range ch {
		if c != nil {
			parts = append(parts, PlanShape(c))
		}
	}
	return name + "(" + strings.Join(parts, ",") + ")"
}

func ValueToCell(v *types.Value) refmodel.Cell {
	var k refmodel.Kind
	switch v.ValueType() {
	case types.Integer:
		k = refmodel.KInt
	case types.Float:
		k = refmodel.KFloat
	case types.Varchar:
		k = refmodel.KStr
	default:
		return refmodel.Cell{K: refmodel.KStr, S: fmt.Sprintf("<unsupported type %v>", v.ValueType())}
	}
	if v.IsNull() {
		return refmodel.Null(k)
	}
	switch k {
	case refmodel.KInt:
		return refmodel.Int(v.ToInteger())
	case refmodel.KFloat:
		return refmodel.Float(v.ToFloat())
	}
	return refmodel.Str(v.ToVarchar())
}

func CellToValue(c refmodel.Cell) types.Value {
	var v types.Value
	switch c.K {
	case refmodel.KInt:
		v = types.NewInteger(c.I)
	case refmodel.KFloat:
		v = types.NewFloat(c.F)
	default:
		v = types.NewVarchar(c.S)
	}
	if c.Null {
		return *v.SetNull()
	}
	return v
}

func TupleToRow(t *tuple.Tuple, sc *schema.Schema) refmodel.Row {
	n := int(sc.GetColumnCount())
	row := make(refmodel.Row, n)
	for i := 0; i < n; i++ {
		v := t.GetValue(sc, uint32(i))
		row[i] = ValueToCell(&v)
	}
	return row
}

func kindToType(k refmodel.Kind) types.TypeID {
	switch k {
	case refmodel.KInt:
		return types.Integer
	case refmodel.KFloat:
		return types.Float
	}
	return types.Varchar
}

// IndexSpec for CreateTableAPI: "" (no index), "skiplist", "uniq", "btree", "hash".
func indexKind(s string) (bool, index_constants.IndexKind) {
	switch s {
	case "skiplist":
		return true, index_constants.IndexKindSkipList
	case "uniq":
		return true, index_constants.IndexKindUniqSkipList
	case "btree":
		return true, index_constants.IndexKindBtree
	case "hash":
		return true, index_constants.IndexKindHash
	}
	return false, index_constants.IndexKindInvalid
}

// CreateTableAPI creates a table through the catalog API (any index kind per column) inside its own committed transaction.
func (d *DB) CreateTableAPI(name string, cols []refmodel.Col, idx []string) {
	cs := make([]*column.Column, len(cols))
	for i, c := range cols {
		has, kind := indexKind(idx[i])
		cs[i] = column.NewColumn(c.Name, kindToType(c.K), has, kind, types.PageID(-1), nil)
	}
	txn := d.Begin()
	d.Cat.CreateTable(name, schema.NewSchema(cs), txn)
	d.Commit(txn)
}

// CreateTableSQL creates a table through the SQL front end (every column gets a skip-list index).
func (d *DB) CreateTableSQL(name string, cols []refmodel.Col) error {
	parts := make([]string, len(cols))
	for i, c := range cols {
		parts[i] = c.Name + " " + c.K.SQL()
	}
	r := d.Auto("CREATE TABLE " + name + "(" + strings.Join(parts, ", ") + ");")
	return r.Err
}

// InsertPlan inserts rows through a hand-built InsertPlanNode (for values without an SQL literal form).
func (d *DB) InsertPlan(txn *access.Transaction, table string, rows []refmodel.Row) Result {
	tm := d.Cat.GetTableByName(table)
	raw := make([][]types.Value, len(rows))
	for i, r := range rows {
		raw[i] = make([]types.Value, len(r))
		for j, c := range r {
			raw[i][j] = CellToValue(c)
		}
	}
	return d.ExecPlan(txn, plans.NewInsertPlanNode(raw, tm.OID()))
}

// ScanAll reads a whole table through a hand-built SeqScanPlanNode (no optimizer involved), inside txn.
func (d *DB) ScanAll(txn *access.Transaction, table string) Result {
	tm := d.Cat.GetTableByName(table)
	if tm == nil {
		return Result{Err: fmt.Errorf("table %s not found", table)}
	}
	return d.ExecPlan(txn, plans.NewSeqScanPlanNode(d.Cat, tm.Schema(), nil, tm.OID()))
}

// ScanAllAuto is ScanAll in its own transaction.
func (d *DB) ScanAllAuto(table string) Result {
	txn := d.Begin()
	r := d.ScanAll(txn, table)
	if r.Aborted {
		d.Abort(txn)
	} else {
		d.Commit(txn)
	}
	return r
}

// UpdateStats runs one pass of the statistics updater (the same code the background goroutine runs).
func (d *DB) UpdateStats() {
	concurrency.NewStatisticsUpdater(d.TM, d.Cat).UpdateAllTablesStatistics()
}

// InsertSQL renders an INSERT statement; ok=false when some value has no SQL literal form.
// InsertSQLPerm is InsertSQL with the column list (and every value tuple) written in the order perm (a permutation of the column positions).
func InsertSQLPerm(table string, cols []refmodel.Col, rows []refmodel.Row, perm []int) (string, bool) {
	pc := make([]refmodel.Col, len(cols))
	for i, j := range perm {
		pc[i] = cols[j]
	}
	pr := make([]refmodel.Row, len(rows))
	for k, r := range rows {
		nr := make(refmodel.Row, len(r))
		for i, j := range perm {
			nr[i] = r[j]
		}
		pr[k] = nr
	}
	return InsertSQL(table, pc, pr)
}

func InsertSQL(table string, cols []refmodel.Col, rows []refmodel.Row) (string, bool) {
	names := make([]string, len(cols))
	for i, c := range cols {
		names[i] = c.Name
	}
	var vals []string
	for _, r := range rows {
		lits := make([]string, len(r))
		for i, c := range r {
			l, ok := c.SQLLit()
			if !ok {
				return "", false
			}
			lits[i] = l
		}
		vals = append(vals, "("+strings.Join(lits, ", ")+")")
	}
	return "INSERT INTO " + table + "(" + strings.Join(names, ", ") + ") VALUES " + strings.Join(vals, ", ") + ";", true
}

// RemoveFiles deletes the database and log file of path.
func RemoveFiles(path string) {
	os.Remove(path + ".db")
	os.Remove(path + ".log")
}

func newCtx(d *DB, txn *access.Transaction) *executors.ExecutorContext {
	return executors.NewExecutorContext(d.Cat, d.BPM, txn)
}

func txnAborted(txn *access.Transaction) bool { return txn.GetState() == access.ABORTED }
