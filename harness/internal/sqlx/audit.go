package sqlx

import (
	"fmt"
	"sort"

	"github.com/ryogrid/SamehadaDB/lib/execution/plans"
	"github.com/ryogrid/SamehadaDB/lib/storage/page"
	"github.com/ryogrid/SamehadaDB/lib/storage/tuple"

	rm "verifharness/internal/refmodel"
)

// HeapRow is a row with its row id as read by a plan-level sequential scan.
type HeapRow struct {
	RID string
	Row rm.Row
}

// ScanWithRIDs reads the table through a hand-built SeqScanPlanNode and returns rows with their row ids.
func (d *DB) ScanWithRIDs(table string) ([]HeapRow, error) {
	tm := d.Cat.GetTableByName(table)
	if tm == nil {
		return nil, fmt.Errorf("table %s not found", table)
	}
	txn := d.Begin()
	plan := plans.NewSeqScanPlanNode(d.Cat, tm.Schema(), nil, tm.OID())
	ctx := newCtx(d, txn)
	tuples := d.eng.Execute(plan, ctx)
	if txnAborted(txn) {
		d.Abort(txn)
		return nil, fmt.Errorf("sequential scan aborted")
	}
	d.Commit(txn)
	out := make([]HeapRow, 0, len(tuples))
	for _, t := range tuples {
		rid := "?"
		if t.GetRID() != nil {
			rid = fmt.Sprintf("%d:%d", t.GetRID().GetPageID(), t.GetRID().GetSlotNum())
		}
		out = append(out, HeapRow{RID: rid, Row: TupleToRow(t, tm.Schema())})
	}
	return out, nil
}

func ridStr(r page.RID) string { return fmt.Sprintf("%d:%d", r.GetPageID(), r.GetSlotNum()) }

// IndexAudit compares every index of the table with the heap (the heap is the reference):
// point lookups for every key in the heap plus extraKeys, and for ordered kinds the full range scan
// (each in-range row once, keys non-decreasing) and the given intervals.
// kinds[i] is "", "skiplist", "uniq", "btree" or "hash" for column i. Returns a list of disagreements and counters.
func (d *DB) IndexAudit(table string, kinds []string, extraKeys map[int][]rm.Cell, intervals map[int][][2]rm.Cell) (problems []string, stats map[string]int64, heap []HeapRow) {
	stats = map[string]int64{}
	heap, err := d.ScanWithRIDs(table)
	if err != nil {
		return []string{"heap scan failed: " + err.Error()}, stats, nil
	}
	tm := d.Cat.GetTableByName(table)
	sc := tm.Schema()
	byRID := map[string]rm.Row{}
	for _, h := range heap {
		byRID[h.RID] = h.Row
	}
	txn := d.Begin()
	defer d.Commit(txn)
	for col, kind := range kinds {
		if kind == "" {
			continue
		}
		idx := tm.GetIndex(col)
		if idx == nil {
			problems = append(problems, fmt.Sprintf("column %d: catalog has no index object (declared %s)", col, kind))
			continue
		}
		// expected: key canon -> set of rids
		exp := map[string]map[string]bool{}
		keyOf := map[string]rm.Cell{}
		for _, h := range heap {
			c := h.Row[col]
			if c.Null {
				continue
			}
			k := c.Canon()
			if exp[k] == nil {
				exp[k] = map[string]bool{}
			}
			exp[k][h.RID] = true
			keyOf[k] = c
		}
		for _, c := range extraKeys[col] {
			if !c.Null {
				if _, ok := keyOf[c.Canon()]; !ok {
					keyOf[c.Canon()] = c
				}
			}
		}
		var keys []string
		for k := range keyOf {
			keys = append(keys, k)
		}
		sort.Strings(keys)
		for _, k := range keys {
			v := CellToValue(keyOf[k])
			kt := tuple.GenTupleForIndexSearch(sc, uint32(col), &v)
			rids := idx.ScanKey(kt, txn)
			stats["index_point_lookups"]++
			got := map[string]int{}
			for _, r := range rids {
				got[ridStr(r)]++
			}
			for r, n := range got {
				if n > 1 {
					problems = append(problems, fmt.Sprintf("column %d (%s) key %v: row id %s returned %d times", col, kind, keyOf[k], r, n))
				}
				if !exp[k][r] {
					row, live := byRID[r]
					if live {
						problems = append(problems, fmt.Sprintf("column %d (%s) key %v: index returns row id %s whose row %v holds another key", col, kind, keyOf[k], r, row))
					} else {
						problems = append(problems, fmt.Sprintf("column %d (%s) key %v: index returns row id %s which is not a live row (stale entry)", col, kind, keyOf[k], r))
					}
				}
			}
			for r := range exp[k] {
				if got[r] == 0 {
					problems = append(problems, fmt.Sprintf("column %d (%s) key %v: row %v at %s is missing from the index", col, kind, keyOf[k], byRID[r], r))
				}
			}
			if len(exp[k]) >= 2 {
				stats["index_keys_with_duplicates"]++
			}
		}
		if kind == "hash" {
			continue
		}
		// full range
		scan := func(lo, hi *rm.Cell) []string {
			var lt, ht *tuple.Tuple
			if lo != nil {
				v := CellToValue(*lo)
				lt = tuple.GenTupleForIndexSearch(sc, uint32(col), &v)
			}
			if hi != nil {
				v := CellToValue(*hi)
				ht = tuple.GenTupleForIndexSearch(sc, uint32(col), &v)
			}
			it := idx.GetRangeScanIterator(lt, ht, txn)
			var out []string
			if it == nil {
				return nil
			}
			for done, _, _, rid := it.Next(); !done; done, _, _, rid = it.Next() {
				out = append(out, ridStr(*rid))
			}
			return out
		}
		check := func(name string, lo, hi *rm.Cell) {
			got := scan(lo, hi)
			stats["index_range_scans"]++
			want := map[string]bool{}
			for _, h := range heap {
				c := h.Row[col]
				if c.Null {
					continue
				}
				if lo != nil && rm.Compare(c, *lo) < 0 {
					continue
				}
				if hi != nil && rm.Compare(c, *hi) > 0 {
					continue
				}
				want[h.RID] = true
			}
			seen := map[string]bool{}
			var prev *rm.Cell
			for _, r := range got {
				if seen[r] {
					problems = append(problems, fmt.Sprintf("column %d (%s) range %s: row id %s returned twice", col, kind, name, r))
				}
				seen[r] = true
				row, live := byRID[r]
				if !live {
					problems = append(problems, fmt.Sprintf("column %d (%s) range %s: entry %s is not a live row", col, kind, name, r))
					continue
				}
				if !want[r] {
					problems = append(problems, fmt.Sprintf("column %d (%s) range %s: row %v at %s is out of range or holds another key", col, kind, name, row, r))
				}
				c := row[col]
				if prev != nil && !c.Null && rm.Compare(*prev, c) > 0 {
					problems = append(problems, fmt.Sprintf("column %d (%s) range %s: not in key order (%v after %v)", col, kind, name, c, *prev))
				}
				if !c.Null {
					cc := c
					prev = &cc
				}
			}
			for r := range want {
				if !seen[r] {
					problems = append(problems, fmt.Sprintf("column %d (%s) range %s: row %v at %s is missing from the scan", col, kind, name, byRID[r], r))
				}
			}
		}
		check("(-inf,+inf)", nil, nil)
		for _, iv := range intervals[col] {
			lo, hi := iv[0], iv[1]
			check(fmt.Sprintf("[%v,%v]", lo, hi), &lo, &hi)
		}
	}
	if len(problems) > 12 {
		problems = append(problems[:12], fmt.Sprintf("... %d more", len(problems)-12))
	}
	return problems, stats, heap
}
