// Package gen holds the seeded generators shared by the SQL-level checks: schemas, values, rows, predicates.
package gen

import (
	"math"
	"math/rand"
	"strings"
	"sync"
	"unicode/utf8"

	"github.com/ryogrid/SamehadaDB/lib/parser"
	"github.com/ryogrid/SamehadaDB/lib/types"

	rm "verifharness/internal/refmodel"
)

var colNames = []string{"a", "b", "c", "d", "e"}

// Schema draws 1-5 columns. With withID the first column is "id" INT.
func Schema(r *rand.Rand, withID bool, maxCols int) []rm.Col {
	n := 1 + r.Intn(maxCols)
	var cols []rm.Col
	if withID {
		cols = append(cols, rm.Col{Name: "id", K: rm.KInt})
	}
	for i := 0; i < n && len(cols) < maxCols; i++ {
		cols = append(cols, rm.Col{Name: colNames[i], K: rm.Kind(r.Intn(3))})
	}
	return cols
}

var (
	sqlInts   = []int32{0, 1, 2, 3, 4, 5, 7, 10, 11, 20, 21, 100, 1000, 65535, 65536, 2147483646, 2147483647}
	apiInts   = []int32{-1, -2, -100, math.MinInt32, math.MinInt32 + 1}
	sqlFloats = []float32{0, 0.5, 1, 1.5, 2.25, 3, 10.75, 100.125, 16777216, 0.000125}
	apiFloats = []float32{-0.5, -1, float32(math.Copysign(0, -1)), math.MaxFloat32 / 2, -math.MaxFloat32 / 2, math.SmallestNonzeroFloat32, 1e-40, -3.25}
	sqlStrs   = []string{"", "a", "ab", "abc", "abd", "b", "A", "Z", "z", "zz", "0", "9", "a b", "S", "Sa", "T", "日本", "é", "a  b", " a", "a ", "  ", "a\tb", "x   y z "}
)

// Sentinels: when true, the in-band sentinel spellings of the engine's Value type (varchar "SamehadaDBInfMinValue" /
// "SamehadaDBInfMaxValue", float +-MaxFloat32 and the infinities beyond them) are drawn as data and literals.
// Cases that set it are tagged "sentinel-values" by their checks.
var sentinelStrs = []string{"SamehadaDBInfMaxValue", "SamehadaDBInfMinValue"}
var sentinelFloats = []float32{math.MaxFloat32, -math.MaxFloat32, float32(math.Inf(1)), float32(math.Inf(-1))}

// SentinelValue draws one of the in-band sentinel values of kind k (ok=false for INT, whose sentinels are the true extremes).
func SentinelValue(r *rand.Rand, k rm.Kind) (rm.Cell, bool) {
	switch k {
	case rm.KStr:
		return rm.Str(sentinelStrs[r.Intn(2)]), true
	case rm.KFloat:
		return rm.Float(sentinelFloats[r.Intn(4)]), true
	}
	return rm.Cell{}, false
}

// Value draws a value of kind k. api=true allows values that have no SQL literal form (negatives, NULL ...).
func Value(r *rand.Rand, k rm.Kind, api bool, longStrings bool) rm.Cell {
	if api && r.Intn(8) == 0 {
		return rm.Null(k)
	}
	switch k {
	case rm.KInt:
		if api && r.Intn(3) == 0 {
			return rm.Int(apiInts[r.Intn(len(apiInts))])
		}
		if r.Intn(4) == 0 {
			return rm.Int(int32(r.Intn(30)))
		}
		return rm.Int(sqlInts[r.Intn(len(sqlInts))])
	case rm.KFloat:
		if api && r.Intn(3) == 0 {
			return rm.Float(apiFloats[r.Intn(len(apiFloats))])
		}
		if r.Intn(4) == 0 {
			return rm.Float(float32(r.Intn(40)) / 4)
		}
		return rm.Float(sqlFloats[r.Intn(len(sqlFloats))])
	default:
		if longStrings && r.Intn(3) == 0 {
			l := []int{300, 1200, 2000, 3000}[r.Intn(4)]
			return rm.Str(strings.Repeat(string(rune('a'+r.Intn(26))), l))
		}
		if r.Intn(4) == 0 {
			b := make([]byte, 1+r.Intn(6))
			for i := range b {
				b[i] = "abcxyz019 AZ"[r.Intn(12)]
			}
			return rm.Str(string(b))
		}
		return rm.Str(sqlStrs[r.Intn(len(sqlStrs))])
	}
}

// Neighbour returns a literal near c (so that bounds become redundant / overlapping / contradictory), always SQL-expressible.
func Neighbour(r *rand.Rand, c rm.Cell) rm.Cell {
	if c.Null {
		return Value(r, c.K, false, false)
	}
	switch c.K {
	case rm.KInt:
		d := int64(r.Intn(3) - 1)
		v := int64(c.I) + d
		if v < 0 {
			v = 0
		}
		if v > math.MaxInt32 {
			v = math.MaxInt32
		}
		return rm.Int(int32(v))
	case rm.KFloat:
		v := c.F + float32(r.Intn(3)-1)*0.25
		if v < 0 || v != v || math.IsInf(float64(v), 0) {
			v = 0
		}
		out := rm.Float(v)
		if _, ok := out.SQLLit(); !ok {
			return rm.Float(1.5)
		}
		return out
	default:
		switch r.Intn(3) {
		case 0:
			return rm.Str(c.S + "a")
		case 1:
			if len(c.S) > 0 && len(c.S) < 100 {
				return rm.Str(c.S[:len(c.S)-1])
			}
		}
		if len(c.S) > 100 {
			return rm.Str(c.S[:3])
		}
		return c
	}
}

var (
	litMu    sync.Mutex
	litCache = map[string]bool{}
)

// BaselineLit is the syntactic class of literal forms that the SQL front end of the pinned tree accepts and reads back
// exactly (probed there for every member of the generators' pools and 100 k random members): unsigned integers,
// non-negative finite floats below 1e30 in plain or exponent notation, and quoted strings without quote, backslash or
// NUL characters - whatever blanks, tabs, punctuation or keywords they contain. Values of this class are ALWAYS written
// as SQL literals, so a front end that starts to misread one of them shows up as a wrong answer / wrong table content.
func BaselineLit(c rm.Cell) bool {
	if c.Null {
		return false
	}
	if _, ok := c.SQLLit(); !ok {
		return false
	}
	switch c.K {
	case rm.KInt:
		return c.I >= 0
	case rm.KFloat:
		return c.F >= 0 && !math.Signbit(float64(c.F)) && c.F < 1e30 && c.F == c.F
	default:
		if !utf8.ValidString(c.S) || len(c.S) > 3000 {
			return false
		}
		return !strings.ContainsAny(c.S, "'\\\x00")
	}
}

// LitAccepted: is the SQL literal form of c one "the SQL front end accepts" (the property's wording)? Members of the
// baseline class always are; outside it the real parser is probed (does the literal read back as the same typed value?).
func LitAccepted(c rm.Cell) bool {
	if BaselineLit(c) {
		return true
	}
	return LitRoundTrips(c)
}

// LitRoundTrips probes the real parser: is the SQL literal form of c read back as a value of the same type and value?
func LitRoundTrips(c rm.Cell) bool {
	lit, ok := c.SQLLit()
	if !ok {
		return false
	}
	key := c.Canon()
	litMu.Lock()
	v, hit := litCache[key]
	litMu.Unlock()
	if hit {
		return v
	}
	res := probe(c, lit)
	litMu.Lock()
	litCache[key] = res
	litMu.Unlock()
	return res
}

func probe(c rm.Cell, lit string) (ok bool) {
	defer func() {
		if recover() != nil {
			ok = false
		}
	}()
	sql := "SELECT x FROM t WHERE x = " + lit + ";"
	qi, err := parser.ProcessSQLStr(&sql)
	if err != nil || qi == nil || qi.WhereExpression == nil {
		return false
	}
	v, isVal := qi.WhereExpression.Right.(*types.Value)
	if !isVal || v == nil || v.IsNull() {
		return false
	}
	switch c.K {
	case rm.KInt:
		return v.ValueType() == types.Integer && v.ToInteger() == c.I
	case rm.KFloat:
		return v.ValueType() == types.Float && v.ToFloat() == c.F
	default:
		return v.ValueType() == types.Varchar && v.ToVarchar() == c.S
	}
}

// Pred draws a predicate tree with nLeaves comparisons over the table. Literals are drawn from stored values +-1.
// andOnly: only AND nodes (and then literals may be written on the left side).
func Pred(r *rand.Rand, t *rm.Table, nLeaves int, andOnly bool, focusCol int) *rm.Pred {
	leaf := func() *rm.Pred {
		for tries := 0; tries < 50; tries++ {
			ci := r.Intn(len(t.Cols))
			if focusCol >= 0 && r.Intn(3) != 0 {
				ci = focusCol
			}
			col := t.Cols[ci]
			var lit rm.Cell
			if len(t.Rows) > 0 && r.Intn(5) != 0 {
				lit = Neighbour(r, t.Rows[r.Intn(len(t.Rows))][ci])
			} else {
				lit = Value(r, col.K, false, false)
			}
			if lit.Null || !LitAccepted(lit) {
				continue
			}
			p := rm.Leaf(col.Name, rm.CmpOp(r.Intn(6)), lit)
			return p
		}
		return rm.Leaf(t.Cols[0].Name, rm.Ge, Value(r, t.Cols[0].K, false, false))
	}
	var build func(n int) *rm.Pred
	build = func(n int) *rm.Pred {
		if n == 1 {
			return leaf()
		}
		k := 1 + r.Intn(n-1)
		l, rr := build(k), build(n-k)
		if andOnly || r.Intn(2) == 0 {
			p := rm.And(l, rr)
			return p
		}
		return rm.Or(l, rr)
	}
	return build(nLeaves)
}

// AndChain builds a left-deep AND chain from leaves in the given order.
func AndChain(leaves []*rm.Pred) *rm.Pred {
	p := leaves[0]
	for _, l := range leaves[1:] {
		p = rm.And(p, l)
	}
	return p
}

// Permutations returns up to max permutations of idx 0..n-1 (all of them when n! <= max), deterministic under r.
func Permutations(r *rand.Rand, n, max int) [][]int {
	var all [][]int
	var rec func(cur []int, used []bool)
	rec = func(cur []int, used []bool) {
		if len(cur) == n {
			all = append(all, append([]int(nil), cur...))
			return
		}
		for i := 0; i < n; i++ {
			if !used[i] {
				used[i] = true
				rec(append(cur, i), used)
				used[i] = false
			}
		}
	}
	rec(nil, make([]bool, n))
	if len(all) <= max {
		return all
	}
	r.Shuffle(len(all), func(i, j int) { all[i], all[j] = all[j], all[i] })
	return all[:max]
}

// BtreeExtremeInt: integer keys whose order-preserving encoding starts with the bytes FF FF (values >= 2^31 - 65536)
// collide with the in-band stopper key of the third-party B-tree library; a B-tree index that receives one stops
// answering lookups (listed finding). Generators keep them out of B-tree-indexed columns except in tagged cases.
func BtreeExtremeInt(c rm.Cell) bool {
	return !c.Null && c.K == rm.KInt && c.I >= 2147418112
}
