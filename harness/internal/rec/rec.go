// Package rec records the storage boundary of the engine (hook H1): every WritePage / WriteLog / GCLogFile call
// becomes an event; harness markers are interleaved. Any prefix of the event list can be materialised as a
// crash image (db file + log file), optionally with the last write torn. It also holds an independent parser
// for the log format (used by the write-ahead trace rules).
package rec

import (
	"encoding/binary"
	"fmt"
	"os"
	"sync"
	"time"

	"github.com/ryogrid/SamehadaDB/lib/samehada"
	"github.com/ryogrid/SamehadaDB/lib/storage/disk"
	"github.com/ryogrid/SamehadaDB/lib/types"
)

const PageSize = 4096

type Kind byte

const (
	WritePage Kind = 'P'
	WriteLog  Kind = 'L'
	GCLog     Kind = 'G'
	Marker    Kind = 'M'
)

type Event struct {
	Kind Kind
	Page int32
	Data []byte
	Mark string
	Txn  int // marker: harness transaction number
}

// Recorder wraps a DiskManager. The mutex is held across the delegated call so the event order is a
// linearisation of the I/O calls.
type Recorder struct {
	inner  disk.DiskManager
	mu     sync.Mutex
	pageMu sync.Mutex
	Events []Event
	On     bool
	// Concurrent mode (for write-ahead monitoring under real concurrency): calls are NOT serialised by the recorder;
	// a WritePage is recorded when it is CALLED, a WriteLog when it has RETURNED (the property's notion of "on stable
	// storage"), so a page write that starts while the log write carrying its record is still in flight is visible.
	// LogDelay lengthens every log write (a slow fsync) to widen that window.
	Concurrent bool
	LogDelay   time.Duration
}

var current *Recorder

// Install arranges that the next database instance created by samehada.NewSamehadaDB is recorded; returns a getter.
func Install() func() *Recorder {
	var got *Recorder
	samehada.VerifDiskManagerWrapper = func(d disk.DiskManager) disk.DiskManager {
		r := &Recorder{inner: d, On: true}
		got = r
		current = r
		return r
	}
	return func() *Recorder { return got }
}

// Uninstall removes the wrapper (instances created afterwards are not recorded).
func Uninstall() { samehada.VerifDiskManagerWrapper = nil }

func (r *Recorder) Mark(s string, txn int) { r.MarkIdx(s, txn) }

// MarkIdx appends a marker and returns its event index (atomic, for histories driven by several goroutines).
func (r *Recorder) MarkIdx(s string, txn int) int {
	r.mu.Lock()
	defer r.mu.Unlock()
	r.Events = append(r.Events, Event{Kind: Marker, Mark: s, Txn: txn})
	return len(r.Events) - 1
}

func (r *Recorder) Len() int {
	r.mu.Lock()
	defer r.mu.Unlock()
	return len(r.Events)
}

func (r *Recorder) ReadPage(id types.PageID, b []byte) error { return r.inner.ReadPage(id, b) }
func (r *Recorder) WritePage(id types.PageID, b []byte) error {
	if r.Concurrent {
		// page writes stay ordered among themselves (as the disk manager's own file mutex orders them); log writes are not held up
		r.pageMu.Lock()
		defer r.pageMu.Unlock()
		r.mu.Lock()
		if r.On {
			r.Events = append(r.Events, Event{Kind: WritePage, Page: int32(id), Data: append([]byte(nil), b...)})
		}
		r.mu.Unlock()
		return r.inner.WritePage(id, b)
	}
	r.mu.Lock()
	defer r.mu.Unlock()
	err := r.inner.WritePage(id, b)
	if r.On {
		r.Events = append(r.Events, Event{Kind: WritePage, Page: int32(id), Data: append([]byte(nil), b...)})
	}
	return err
}
func (r *Recorder) AllocatePage() types.PageID     { return r.inner.AllocatePage() }
func (r *Recorder) DeallocatePage(id types.PageID) { r.inner.DeallocatePage(id) }
func (r *Recorder) GetNumWrites() uint64           { return r.inner.GetNumWrites() }
func (r *Recorder) ShutDown()                      { r.inner.ShutDown() }
func (r *Recorder) Size() int64                    { return r.inner.Size() }
func (r *Recorder) RemoveDBFile()                  { r.inner.RemoveDBFile() }
func (r *Recorder) RemoveLogFile()                 { r.inner.RemoveLogFile() }
func (r *Recorder) WriteLog(b []byte) error {
	if r.Concurrent {
		data := append([]byte(nil), b...)
		err := r.inner.WriteLog(b)
		if r.LogDelay > 0 && len(b) > 0 {
			time.Sleep(r.LogDelay)
		}
		r.mu.Lock()
		if r.On && len(data) > 0 {
			r.Events = append(r.Events, Event{Kind: WriteLog, Data: data})
		}
		r.mu.Unlock()
		return err
	}
	r.mu.Lock()
	defer r.mu.Unlock()
	err := r.inner.WriteLog(b)
	if r.On && len(b) > 0 {
		r.Events = append(r.Events, Event{Kind: WriteLog, Data: append([]byte(nil), b...)})
	}
	return err
}
func (r *Recorder) ReadLog(b []byte, off int32, n *uint32) bool { return r.inner.ReadLog(b, off, n) }
func (r *Recorder) GetLogFileSize() int64                       { return r.inner.GetLogFileSize() }
func (r *Recorder) GCLogFile() error {
	r.mu.Lock()
	defer r.mu.Unlock()
	err := r.inner.GCLogFile()
	if r.On {
		r.Events = append(r.Events, Event{Kind: GCLog})
	}
	return err
}

// Image is a materialised crash state.
type Image struct {
	DB  []byte
	Log []byte
}

// ReadFiles loads the image of a file-backed database (path.db, path.log).
func ReadFiles(path string) *Image {
	dbb, _ := os.ReadFile(path + ".db")
	lgb, _ := os.ReadFile(path + ".log")
	return &Image{DB: dbb, Log: lgb}
}

func (im *Image) Clone() *Image {
	return &Image{DB: append([]byte(nil), im.DB...), Log: append([]byte(nil), im.Log...)}
}

// Apply applies one event to the image.
func (im *Image) Apply(e *Event) {
	switch e.Kind {
	case WritePage:
		off := int(e.Page) * PageSize
		if len(im.DB) < off+PageSize {
			im.DB = append(im.DB, make([]byte, off+PageSize-len(im.DB))...)
		}
		copy(im.DB[off:], e.Data)
	case WriteLog:
		im.Log = append(im.Log, e.Data...)
	case GCLog:
		im.Log = im.Log[:0]
	}
}

// ApplyTorn applies only a part of a write: for a log write the first n bytes; for a page write the first n 512-byte sectors.
// TornBeyondEOF reports whether a torn write of e would extend the file (the page lies at or beyond the current end of the db file).
func (im *Image) TornBeyondEOF(e *Event) bool {
	return e.Kind == WritePage && int(e.Page)*PageSize >= len(im.DB)
}

func (im *Image) ApplyTorn(e *Event, n int) {
	switch e.Kind {
	case WritePage:
		off := int(e.Page) * PageSize
		// a torn write of a page that lies beyond the end of the file leaves a file that ENDS inside that page
		// (only the sectors that were written exist); inside the file the rest of the old page image stays
		if len(im.DB) < off+n*512 {
			im.DB = append(im.DB, make([]byte, off+n*512-len(im.DB))...)
		}
		copy(im.DB[off:off+n*512], e.Data[:n*512])
	case WriteLog:
		im.Log = append(im.Log, e.Data[:n]...)
	}
}

// WriteFiles writes the image as <path>.db and <path>.log.
func (im *Image) WriteFiles(path string) error {
	if err := os.WriteFile(path+".db", im.DB, 0644); err != nil {
		return err
	}
	return os.WriteFile(path+".log", im.Log, 0644)
}

// ---- independent log parser

type LogRec struct {
	Size    uint32
	LSN     int32
	Txn     int32
	PrevLSN int32
	Type    int32
	Page    int32 // target page of tuple / page records (-1 if none)
	Slot    uint32
	Off     int // offset in the stream
}

const (
	LInsert int32 = iota + 1
	LMarkDelete
	LApplyDelete
	LRollbackDelete
	LUpdate
	LBegin
	LCommit
	LAbort
	LNewTablePage
	LDeallocatePage
	LReusePage
	LGracefulShutdown
)

var typeNames = map[int32]string{1: "INSERT", 2: "MARKDELETE", 3: "APPLYDELETE", 4: "ROLLBACKDELETE", 5: "UPDATE", 6: "BEGIN", 7: "COMMIT", 8: "ABORT", 9: "NEWTABLEPAGE", 10: "DEALLOCATEPAGE", 11: "REUSEPAGE", 12: "GRACEFULSHUTDOWN"}

func (l LogRec) String() string {
	return fmt.Sprintf("{%s lsn=%d txn=%d prev=%d page=%d slot=%d size=%d}", typeNames[l.Type], l.LSN, l.Txn, l.PrevLSN, l.Page, l.Slot, l.Size)
}

// ParseLog parses a log byte stream into records. rest = number of trailing bytes that do not form a complete, well-formed record.
func ParseLog(b []byte) (recs []LogRec, rest int, problem string) {
	off := 0
	for off < len(b) {
		if len(b)-off < 20 {
			return recs, len(b) - off, "truncated header"
		}
		r := LogRec{Off: off, Page: -1}
		r.Size = binary.LittleEndian.Uint32(b[off:])
		r.LSN = int32(binary.LittleEndian.Uint32(b[off+4:]))
		r.Txn = int32(binary.LittleEndian.Uint32(b[off+8:]))
		r.PrevLSN = int32(binary.LittleEndian.Uint32(b[off+12:]))
		r.Type = int32(binary.LittleEndian.Uint32(b[off+16:]))
		if r.Type < 1 || r.Type > 12 {
			return recs, len(b) - off, fmt.Sprintf("unknown record type %d at offset %d", r.Type, off)
		}
		if r.Size < 20 || int(r.Size) > len(b)-off {
			return recs, len(b) - off, fmt.Sprintf("record of type %s at offset %d has size %d but %d bytes remain", typeNames[r.Type], off, r.Size, len(b)-off)
		}
		body := b[off+20 : off+int(r.Size)]
		want := -1
		switch r.Type {
		case LInsert, LMarkDelete, LApplyDelete, LRollbackDelete:
			if len(body) >= 12 {
				r.Page = int32(binary.LittleEndian.Uint32(body))
				r.Slot = binary.LittleEndian.Uint32(body[4:])
				want = 12 + int(binary.LittleEndian.Uint32(body[8:]))
			} else {
				want = 12
			}
		case LUpdate:
			if len(body) >= 12 {
				r.Page = int32(binary.LittleEndian.Uint32(body))
				r.Slot = binary.LittleEndian.Uint32(body[4:])
				o := int(binary.LittleEndian.Uint32(body[8:]))
				if len(body) >= 12+o+4 {
					want = 12 + o + 4 + int(binary.LittleEndian.Uint32(body[12+o:]))
				} else {
					want = 12 + o + 4
				}
			} else {
				want = 12
			}
		case LNewTablePage:
			want = 8
			if len(body) >= 8 {
				r.Page = int32(binary.LittleEndian.Uint32(body[4:]))
			}
		case LDeallocatePage, LReusePage:
			want = 4
			if len(body) >= 4 {
				r.Page = int32(binary.LittleEndian.Uint32(body))
			}
		default:
			want = 0
		}
		if want != len(body) {
			return recs, len(b) - off, fmt.Sprintf("record %s at offset %d: payload is %d bytes, its fields need %d", typeNames[r.Type], off, len(body), want)
		}
		recs = append(recs, r)
		off += int(r.Size)
	}
	return recs, 0, ""
}
