package idxmodel

import (
	"fmt"
	"math/bits"
	"sort"
	"strings"
	"time"

	"github.com/anishathalye/porcupine"
)

// Operation kinds of a concurrent history.
const (
	OpIns = iota
	OpDel
	OpUpd
	OpRead
	OpScan
)

var opNames = []string{"ins", "del", "upd", "read", "scan"}

// EntInfo is one (key, row id) entry of a concurrent case. Every entry has a row id of its own, is created by at
// most one operation and removed by at most one operation (background entries: by none).
type EntInfo struct {
	Key        int // index into the case's ascending key list
	Rid        RID
	Background bool
	Preloaded  bool // present before the concurrent phase (background or foreground)
}

// HOp is one recorded call. Call/Ret are stamps of one atomic counter taken at the client boundary; Ret == 0
// means the call did not return.
type HOp struct {
	Kind   int
	Worker int
	Call   int64
	Ret    int64
	Key    int   // ins/del/read: key; upd: key of the removed entry
	Key2   int   // upd: key of the created entry
	Make   int   // entry created (ins, upd), else -1
	Kill   int   // entry removed (del, upd), else -1
	Lo, Hi int   // scan bounds (key indexes, inclusive), -1 = nil
	Out    []int // read/scan: entries returned, in the order returned
	Bad    []RID // read/scan: returned row ids that belong to no entry of the case
}

func (o *HOp) String(ents []EntInfo) string {
	s := fmt.Sprintf("[%d,%d] w%d %s", o.Call, o.Ret, o.Worker, opNames[o.Kind])
	switch o.Kind {
	case OpIns:
		s += fmt.Sprintf(" k%d +%v", o.Key, ents[o.Make].Rid)
	case OpDel:
		s += fmt.Sprintf(" k%d -%v", o.Key, ents[o.Kill].Rid)
	case OpUpd:
		s += fmt.Sprintf(" k%d -%v => k%d +%v", o.Key, ents[o.Kill].Rid, o.Key2, ents[o.Make].Rid)
	case OpRead:
		s += fmt.Sprintf(" k%d -> %s", o.Key, entList(o.Out, ents))
	case OpScan:
		s += fmt.Sprintf(" [k%d..k%d] -> %d entries", o.Lo, o.Hi, len(o.Out))
	}
	return s
}

func entList(es []int, ents []EntInfo) string {
	var sb strings.Builder
	sb.WriteString("{")
	for i, e := range es {
		if i > 0 {
			sb.WriteString(" ")
		}
		if i >= 12 {
			fmt.Fprintf(&sb, "..(%d)", len(es))
			break
		}
		sb.WriteString(ents[e].Rid.String())
	}
	sb.WriteString("}")
	return sb.String()
}

// Finding is one refuting observation of a history.
type Finding struct {
	Kind    string
	Detail  string
	History []string // the operations that matter, written out
}

// HistStats is what the history checkers observed.
type HistStats struct {
	KeysChecked      int
	KeysWithWrites   int
	OverlapPairs     int // pairs of operations on one key whose intervals overlap, at least one a mutation
	PorcupineUnknown int
	KeysTooWide      int
	ScansChecked     int
	ScanEntries      int
	BgExpected       int // background entries the scans had to contain (sum over scans)
	StableExpected   int
	ConcurrentSeen   int // foreground entries returned by a scan while their insert/delete overlapped the scan
}

// MaxEntsPerKey is the number of entries one key may carry over a whole history (width of the model state).
const MaxEntsPerKey = 256

type mask [MaxEntsPerKey / 64]uint64

func bitOf(i int) (m mask) { m[(i/64)%len(m)] = 1 << uint(i%64); return }
func (a mask) or(b mask) mask {
	for i := range a {
		a[i] |= b[i]
	}
	return a
}
func (a mask) andNot(b mask) mask {
	for i := range a {
		a[i] &^= b[i]
	}
	return a
}
func (a mask) count() (n int) {
	for i := range a {
		n += bits.OnesCount64(a[i])
	}
	return
}

var fullMask = func() (m mask) {
	for i := range m {
		m[i] = ^uint64(0)
	}
	return
}()

type setIn struct {
	add, rm mask
	read    bool
}

// CheckPerKey checks the per-key histories (point reads and mutations) against the set model with porcupine.
// unique: an insert replaces whatever the key holds. Returns findings and whether some key stayed undecided.
func CheckPerKey(nKeys int, ents []EntInfo, ops []HOp, unique bool, timeout time.Duration, st *HistStats) (fs []Finding, undecided bool) {
	maxStamp := int64(0)
	for i := range ops {
		if ops[i].Call > maxStamp {
			maxStamp = ops[i].Call
		}
		if ops[i].Ret > maxStamp {
			maxStamp = ops[i].Ret
		}
	}
	// local bit numbers
	bit := make([]int, len(ents))
	width := make([]int, nKeys)
	initMask := make([]mask, nKeys)
	for e := range ents {
		k := ents[e].Key
		bit[e] = width[k]
		if width[k] < MaxEntsPerKey && ents[e].Preloaded {
			initMask[k] = initMask[k].or(bitOf(width[k]))
		}
		width[k]++
	}
	type pop struct {
		op  porcupine.Operation
		src *HOp
	}
	per := make([][]pop, nKeys)
	add := func(k int, o *HOp, in setIn, out mask) {
		ret := o.Ret
		if ret == 0 {
			ret = maxStamp + 1
		}
		per[k] = append(per[k], pop{porcupine.Operation{ClientId: o.Worker, Input: in, Call: o.Call, Output: out, Return: ret}, o})
	}
	for i := range ops {
		o := &ops[i]
		switch o.Kind {
		case OpIns:
			in := setIn{add: bitOf(bit[o.Make])}
			if unique {
				in.rm = fullMask
			}
			add(o.Key, o, in, mask{})
		case OpDel:
			add(o.Key, o, setIn{rm: bitOf(bit[o.Kill])}, mask{})
		case OpUpd:
			if o.Key == o.Key2 {
				add(o.Key, o, setIn{rm: bitOf(bit[o.Kill]), add: bitOf(bit[o.Make])}, mask{})
			} else {
				// two partitions: each part keeps the whole interval (necessary condition per key)
				add(o.Key, o, setIn{rm: bitOf(bit[o.Kill])}, mask{})
				in := setIn{add: bitOf(bit[o.Make])}
				if unique {
					in.rm = fullMask
				}
				add(o.Key2, o, in, mask{})
			}
		case OpRead:
			if o.Ret == 0 {
				continue
			}
			var m mask
			for _, e := range o.Out {
				m = m.or(bitOf(bit[e]))
			}
			add(o.Key, o, setIn{read: true}, m)
		}
	}
	for k := 0; k < nKeys; k++ {
		if len(per[k]) == 0 {
			continue
		}
		if width[k] > MaxEntsPerKey {
			st.KeysTooWide++
			continue
		}
		writes := 0
		for _, p := range per[k] {
			if !p.op.Input.(setIn).read {
				writes++
			}
		}
		if writes > 0 {
			st.KeysWithWrites++
		}
		for i := range per[k] {
			for j := i + 1; j < len(per[k]); j++ {
				a, b := per[k][i].op, per[k][j].op
				if a.Call < b.Return && b.Call < a.Return && (!a.Input.(setIn).read || !b.Input.(setIn).read) {
					st.OverlapPairs++
				}
			}
		}
		init := initMask[k]
		model := porcupine.Model{
			Init: func() interface{} { return init },
			Step: func(state, input, output interface{}) (bool, interface{}) {
				s := state.(mask)
				in := input.(setIn)
				if in.read {
					return output.(mask) == s, s
				}
				return true, s.andNot(in.rm).or(in.add)
			},
			Equal: func(a, b interface{}) bool { return a.(mask) == b.(mask) },
		}
		h := make([]porcupine.Operation, len(per[k]))
		for i, p := range per[k] {
			h[i] = p.op
		}
		st.KeysChecked++
		switch porcupine.CheckOperationsTimeout(model, h, timeout) {
		case porcupine.Ok:
		case porcupine.Unknown:
			st.PorcupineUnknown++
			undecided = true
		case porcupine.Illegal:
			sort.Slice(per[k], func(i, j int) bool { return per[k][i].op.Call < per[k][j].op.Call })
			var hs []string
			hs = append(hs, fmt.Sprintf("key k%d initially holds %d entries", k, init.count()))
			for _, p := range per[k] {
				hs = append(hs, p.src.String(ents))
			}
			if len(hs) > 80 {
				hs = append(hs[:80], fmt.Sprintf("... %d more", len(hs)-80))
			}
			fs = append(fs, Finding{Kind: "not-linearizable", Detail: fmt.Sprintf("the history of key k%d (%d operations) has no sequential explanation as a set of row ids", k, len(per[k])), History: hs})
		}
	}
	return fs, undecided
}

// CheckReadsAndScans applies the direct rules:
//   - every returned row id belongs to an entry of the case, is returned once, and (reads) belongs to the key asked for;
//   - a scan is in key order and contains ALL background entries inside its bounds; a read contains all background
//     entries of its key;
//   - a foreground entry is returned only if its creating call was invoked before the read/scan returned and no removal
//     of it completed before the read/scan was invoked;
//   - a foreground entry whose creation completed before the scan was invoked and whose removal (if any) was invoked
//     after the scan returned is contained (it was present during the whole scan).
func CheckReadsAndScans(nKeys int, ents []EntInfo, ops []HOp, st *HistStats) (fs []Finding) {
	makeOp := make([]*HOp, len(ents))
	killOp := make([]*HOp, len(ents))
	for i := range ops {
		o := &ops[i]
		if o.Make >= 0 {
			makeOp[o.Make] = o
		}
		if o.Kill >= 0 {
			killOp[o.Kill] = o
		}
	}
	byKey := make([][]int, nKeys)
	for e := range ents {
		byKey[ents[e].Key] = append(byKey[ents[e].Key], e)
	}
	describe := func(e int) []string {
		var h []string
		if makeOp[e] != nil {
			h = append(h, "created by "+makeOp[e].String(ents))
		} else if ents[e].Preloaded {
			h = append(h, "loaded before the concurrent phase")
		}
		if killOp[e] != nil {
			h = append(h, "removed by "+killOp[e].String(ents))
		}
		return h
	}
	report := func(kind string, o *HOp, e int, format string, a ...any) bool {
		if len(fs) >= 8 {
			return false
		}
		if o.Kind == OpRead {
			kind = "read-" + kind
		} else {
			kind = "scan-" + kind
		}
		h := []string{o.String(ents)}
		if e >= 0 {
			h = append(h, fmt.Sprintf("entry k%d %v background=%v", ents[e].Key, ents[e].Rid, ents[e].Background))
			h = append(h, describe(e)...)
		}
		fs = append(fs, Finding{Kind: kind, Detail: fmt.Sprintf(format, a...), History: h})
		return true
	}
	for i := range ops {
		o := &ops[i]
		if (o.Kind != OpRead && o.Kind != OpScan) || o.Ret == 0 {
			continue
		}
		what := "scan"
		lo, hi := o.Lo, o.Hi
		if o.Kind == OpRead {
			what = "point read"
			lo, hi = o.Key, o.Key
		} else {
			st.ScansChecked++
			st.ScanEntries += len(o.Out)
		}
		if lo < 0 {
			lo = 0
		}
		if hi < 0 {
			hi = nKeys - 1
		}
		for _, r := range o.Bad {
			report("unknown-entry", o, -1, "%s returned row id %v, which no entry of the case carries", what, r)
		}
		seen := make(map[int]bool, len(o.Out))
		prevKey := -1
		for pos, e := range o.Out {
			if seen[e] {
				report("duplicate", o, e, "%s returned entry (k%d,%v) twice", what, ents[e].Key, ents[e].Rid)
			}
			seen[e] = true
			k := ents[e].Key
			if k < lo || k > hi {
				report("out-of-bounds", o, e, "%s over [k%d..k%d] returned an entry of key k%d", what, lo, hi, k)
			}
			if k < prevKey {
				report("order", o, e, "%s result is not in key order at position %d: k%d after k%d", what, pos, k, prevKey)
			}
			prevKey = k
			if ents[e].Background {
				continue
			}
			// may it be there?
			mk, kl := makeOp[e], killOp[e]
			if !ents[e].Preloaded && (mk == nil || mk.Call > o.Ret) {
				report("phantom", o, e, "%s returned an entry whose insert had not been invoked when it returned", what)
			}
			if kl != nil && kl.Ret != 0 && kl.Ret < o.Call {
				report("resurrected", o, e, "%s returned an entry whose removal had completed before it was invoked", what)
			}
			if (mk != nil && mk.Ret > o.Call) || (kl != nil && kl.Call < o.Ret) {
				st.ConcurrentSeen++
			}
		}
		if o.Kind == OpRead {
			// order inversions: compact witnesses of a point lookup that is not atomic (porcupine decides the general case).
			// (a) e2 seen, e1 not seen although e1's insert had returned before e2's insert was invoked and e1 outlives the read;
			// (b) e1 seen although its removal had returned before e2's removal was invoked, and e2 (present before the read) is gone.
			aE1, aE2, bE1, bE2 := -1, -1, -1, -1
			var aMin, aMax, bMin, bMax int64
			for _, e := range byKey[o.Key] {
				if ents[e].Background {
					continue
				}
				mk, kl := makeOp[e], killOp[e]
				if !seen[e] && (kl == nil || kl.Call > o.Ret) && (ents[e].Preloaded || (mk != nil && mk.Ret != 0)) {
					r := int64(-1)
					if !ents[e].Preloaded {
						r = mk.Ret
					}
					if aE1 < 0 || r < aMin {
						aE1, aMin = e, r
					}
				}
				if seen[e] && mk != nil && (aE2 < 0 || mk.Call > aMax) {
					aE2, aMax = e, mk.Call
				}
				if seen[e] && kl != nil && kl.Ret != 0 && (bE1 < 0 || kl.Ret < bMin) {
					bE1, bMin = e, kl.Ret
				}
				if !seen[e] && kl != nil && (ents[e].Preloaded || (mk != nil && mk.Ret != 0 && mk.Ret < o.Call)) && (bE2 < 0 || kl.Call > bMax) {
					bE2, bMax = e, kl.Call
				}
			}
			if aE1 >= 0 && aE2 >= 0 && aMin < aMax {
				if report("insert-order-inversion", o, aE1, "point read returned (k%d,%v) but not (k%d,%v), whose insert had returned before the insert of the former was invoked and which was not removed until after the read", ents[aE2].Key, ents[aE2].Rid, ents[aE1].Key, ents[aE1].Rid) {
					fs[len(fs)-1].History = append(fs[len(fs)-1].History, "returned entry created by "+makeOp[aE2].String(ents))
				}
			}
			if bE1 >= 0 && bE2 >= 0 && bMin < bMax {
				if report("delete-order-inversion", o, bE1, "point read still returned (k%d,%v) but no longer (k%d,%v), although the removal of the former had returned before the removal of the latter was invoked", ents[bE1].Key, ents[bE1].Rid, ents[bE2].Key, ents[bE2].Rid) {
					fs[len(fs)-1].History = append(fs[len(fs)-1].History, "missing entry removed by "+killOp[bE2].String(ents))
				}
			}
		}
		for k := lo; k <= hi && k < nKeys; k++ {
			for _, e := range byKey[k] {
				if ents[e].Background {
					st.BgExpected++
					if !seen[e] {
						report("background-lost", o, e, "%s over [k%d..k%d] does not contain the untouched entry (k%d,%v)", what, lo, hi, k, ents[e].Rid)
					}
					continue
				}
				mk, kl := makeOp[e], killOp[e]
				created := ents[e].Preloaded || (mk != nil && mk.Ret != 0 && mk.Ret < o.Call)
				alive := kl == nil || kl.Call > o.Ret
				if created && alive {
					st.StableExpected++
					if !seen[e] {
						report("stable-entry-missed", o, e, "%s over [k%d..k%d] does not contain (k%d,%v), which was present from before its invocation until after its return", what, lo, hi, k, ents[e].Rid)
					}
				}
			}
		}
	}
	return fs
}
