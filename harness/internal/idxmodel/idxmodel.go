// Package idxmodel is the independent reference model of check C17: a sorted multimap from key to a set of
// row ids over a fixed, strictly ascending key pool (unique variant: at most one row id per key), plus the
// checkers for concurrent histories (per-key set model for porcupine, scan rules). No engine code in here.
package idxmodel

import (
	"fmt"
	"sort"
)

// Key types.
const (
	KInt = iota
	KFloat
	KStr
)

// Key is one key value of one of the three key types.
type Key struct {
	T int
	I int32
	F float32
	S string
}

func (k Key) String() string {
	switch k.T {
	case KInt:
		return fmt.Sprintf("%d", k.I)
	case KFloat:
		return fmt.Sprintf("%g", k.F)
	default:
		if len(k.S) > 40 {
			return fmt.Sprintf("%q..(len %d)", k.S[:24], len(k.S))
		}
		return fmt.Sprintf("%q", k.S)
	}
}

// Compare orders keys of one type: integers and floats numerically, strings bytewise.
func Compare(a, b Key) int {
	switch a.T {
	case KInt:
		switch {
		case a.I < b.I:
			return -1
		case a.I > b.I:
			return 1
		}
		return 0
	case KFloat:
		switch {
		case a.F < b.F:
			return -1
		case a.F > b.F:
			return 1
		}
		return 0
	default:
		switch {
		case a.S < b.S:
			return -1
		case a.S > b.S:
			return 1
		}
		return 0
	}
}

// RID is a row id.
type RID struct {
	Page int32
	Slot uint32
}

func (r RID) String() string { return fmt.Sprintf("(%d,%d)", r.Page, r.Slot) }

// Entry is one (key index, row id) pair; Ki indexes the pool.
type Entry struct {
	Ki  int
	Rid RID
}

// Multimap is the sequential reference model.
type Multimap struct {
	Pool   []Key // strictly ascending
	Unique bool
	sets   []map[RID]struct{}
	where  map[RID]int // live rid -> key index (row ids are unique among live entries)
	n      int
}

// SortKeys sorts and de-duplicates a key slice.
func SortKeys(ks []Key) []Key {
	sort.Slice(ks, func(i, j int) bool { return Compare(ks[i], ks[j]) < 0 })
	out := ks[:0]
	for i, k := range ks {
		if i == 0 || Compare(out[len(out)-1], k) != 0 {
			out = append(out, k)
		}
	}
	return out
}

func New(pool []Key, unique bool) *Multimap {
	for i := 1; i < len(pool); i++ {
		if Compare(pool[i-1], pool[i]) >= 0 {
			panic("idxmodel: pool not strictly ascending")
		}
	}
	return &Multimap{Pool: pool, Unique: unique, sets: make([]map[RID]struct{}, len(pool)), where: map[RID]int{}}
}

func (m *Multimap) Len() int { return m.n }

// Where returns the key index a live row id is stored under.
func (m *Multimap) Where(r RID) (int, bool) { ki, ok := m.where[r]; return ki, ok }

func (m *Multimap) Has(ki int, r RID) bool {
	_, ok := m.sets[ki][r]
	return ok
}

func (m *Multimap) Count(ki int) int { return len(m.sets[ki]) }

// Insert adds (ki, r). Set semantics: re-inserting a present pair changes nothing. Unique: the key's row id is replaced.
func (m *Multimap) Insert(ki int, r RID) {
	if m.sets[ki] == nil {
		m.sets[ki] = map[RID]struct{}{}
	}
	if m.Unique {
		for old := range m.sets[ki] {
			delete(m.sets[ki], old)
			delete(m.where, old)
			m.n--
		}
	}
	if _, ok := m.sets[ki][r]; ok {
		return
	}
	m.sets[ki][r] = struct{}{}
	m.where[r] = ki
	m.n++
}

// Delete removes (ki, r); absent pairs are a no-op.
func (m *Multimap) Delete(ki int, r RID) {
	if _, ok := m.sets[ki][r]; !ok {
		return
	}
	delete(m.sets[ki], r)
	delete(m.where, r)
	m.n--
}

// Get returns the row ids stored under pool key ki (unordered).
func (m *Multimap) Get(ki int) []RID {
	out := make([]RID, 0, len(m.sets[ki]))
	for r := range m.sets[ki] {
		out = append(out, r)
	}
	return out
}

// AnyRid returns some row id of key ki chosen by n.
func (m *Multimap) AnyRid(ki int, n int) (RID, bool) {
	if len(m.sets[ki]) == 0 {
		return RID{}, false
	}
	rs := m.Get(ki)
	sort.Slice(rs, func(i, j int) bool { return ridLess(rs[i], rs[j]) })
	return rs[n%len(rs)], true
}

func ridLess(a, b RID) bool {
	if a.Page != b.Page {
		return a.Page < b.Page
	}
	return a.Slot < b.Slot
}

// Bounds returns the half-open index interval [from, to) of pool keys k with lo <= k <= hi (nil = unbounded).
func (m *Multimap) Bounds(lo, hi *Key) (int, int) {
	from, to := 0, len(m.Pool)
	if lo != nil {
		from = sort.Search(len(m.Pool), func(i int) bool { return Compare(m.Pool[i], *lo) >= 0 })
	}
	if hi != nil {
		to = sort.Search(len(m.Pool), func(i int) bool { return Compare(m.Pool[i], *hi) > 0 })
	}
	if to < from {
		to = from
	}
	return from, to
}

// Range returns the entries with lo <= key <= hi in key order (order inside one key: unspecified).
func (m *Multimap) Range(lo, hi *Key) []Entry {
	from, to := m.Bounds(lo, hi)
	var out []Entry
	for ki := from; ki < to; ki++ {
		for r := range m.sets[ki] {
			out = append(out, Entry{ki, r})
		}
	}
	return out
}

// NonEmptyKeys lists the key indexes that hold at least one row id.
func (m *Multimap) NonEmptyKeys() []int {
	var out []int
	for ki := range m.sets {
		if len(m.sets[ki]) > 0 {
			out = append(out, ki)
		}
	}
	return out
}

// Diff describes how an observed answer differs from the expected set.
type Diff struct {
	Missing []RID `json:"missing,omitempty"`
	Extra   []RID `json:"extra,omitempty"`
	Dup     []RID `json:"duplicate,omitempty"`
}

func (d *Diff) Empty() bool { return len(d.Missing) == 0 && len(d.Extra) == 0 && len(d.Dup) == 0 }

func (d *Diff) String() string {
	trim := func(r []RID) string {
		if len(r) > 6 {
			return fmt.Sprintf("%v..(%d)", r[:6], len(r))
		}
		return fmt.Sprint(r)
	}
	return fmt.Sprintf("missing=%s extra=%s duplicate=%s", trim(d.Missing), trim(d.Extra), trim(d.Dup))
}

// CompareSet compares an observed list of row ids with the expected set.
func CompareSet(got []RID, want []RID) *Diff {
	d := &Diff{}
	w := make(map[RID]int, len(want))
	for _, r := range want {
		w[r] = 0
	}
	for _, r := range got {
		c, ok := w[r]
		if !ok {
			d.Extra = append(d.Extra, r)
			continue
		}
		if c == 1 {
			d.Dup = append(d.Dup, r)
		}
		w[r] = c + 1
	}
	for _, r := range want {
		if w[r] == 0 {
			d.Missing = append(d.Missing, r)
		}
	}
	sort.Slice(d.Missing, func(i, j int) bool { return ridLess(d.Missing[i], d.Missing[j]) })
	return d
}

// CheckRange compares an observed ordered scan with the model: same entries, each once, keys non-decreasing.
// keyOf maps an observed row id to its pool index (-1 = unknown row id).
func (m *Multimap) CheckRange(got []RID, lo, hi *Key) (d *Diff, orderBreakAt int) {
	want := m.Range(lo, hi)
	wr := make([]RID, len(want))
	for i, e := range want {
		wr[i] = e.Rid
	}
	d = CompareSet(got, wr)
	orderBreakAt = -1
	prev := -1
	for i, r := range got {
		ki, ok := m.where[r]
		if !ok {
			continue
		}
		if ki < prev {
			orderBreakAt = i
			break
		}
		prev = ki
	}
	return d, orderBreakAt
}
