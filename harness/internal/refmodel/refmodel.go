// Package refmodel is the independent reference model for tables and the supported SQL subset.
// Nothing of the engine (values, expressions, pages) is used here.
package refmodel

import (
	"fmt"
	"math"
	"sort"
	"strconv"
	"strings"
)

type Kind int

const (
	KInt Kind = iota
	KFloat
	KStr
)

func (k Kind) String() string { return [...]string{"INT", "FLOAT", "VARCHAR"}[k] }
func (k Kind) SQL() string    { return [...]string{"INT", "FLOAT", "VARCHAR(4000)"}[k] }

// Cell is one value.
type Cell struct {
	Null bool    `json:"n,omitempty"`
	K    Kind    `json:"k"`
	I    int32   `json:"i,omitempty"`
	F    float32 `json:"f,omitempty"`
	S    string  `json:"s,omitempty"`
}

func Int(i int32) Cell     { return Cell{K: KInt, I: i} }
func Float(f float32) Cell { return Cell{K: KFloat, F: f} }
func Str(s string) Cell    { return Cell{K: KStr, S: s} }
func Null(k Kind) Cell     { return Cell{K: k, Null: true} }

// Canon is a canonical text of the cell, bit exact for floats (but -0 and +0 are kept distinct only in bits form).
func (c Cell) Canon() string {
	if c.Null {
		return "NULL"
	}
	switch c.K {
	case KInt:
		return "i" + strconv.Itoa(int(c.I))
	case KFloat:
		return "f" + strconv.FormatUint(uint64(math.Float32bits(c.F)), 16)
	default:
		return "s" + strconv.Quote(c.S)
	}
}

func (c Cell) String() string {
	if c.Null {
		return "NULL"
	}
	switch c.K {
	case KInt:
		return strconv.Itoa(int(c.I))
	case KFloat:
		return strconv.FormatFloat(float64(c.F), 'g', -1, 32)
	default:
		if len(c.S) > 40 {
			return fmt.Sprintf("%q...(%d bytes)", c.S[:20], len(c.S))
		}
		return strconv.Quote(c.S)
	}
}

// SQLLit renders the cell as a literal the SQL front end accepts, ok=false if there is no such form.
func (c Cell) SQLLit() (string, bool) {
	if c.Null {
		return "", false
	}
	switch c.K {
	case KInt:
		if c.I < 0 {
			return "", false
		}
		return strconv.Itoa(int(c.I)), true
	case KFloat:
		if c.F < 0 || math.IsInf(float64(c.F), 0) || c.F != c.F || (c.F == 0 && math.Signbit(float64(c.F))) {
			return "", false
		}
		s := strconv.FormatFloat(float64(c.F), 'f', -1, 32)
		if !strings.Contains(s, ".") {
			s += ".0"
		}
		if len(s) > 30 {
			return "", false
		}
		return s, true
	default:
		if strings.ContainsAny(c.S, "'\\\x00") {
			return "", false
		}
		return "'" + c.S + "'", true
	}
}

// Compare: -1, 0, 1 for non-null cells of the same kind.
func Compare(a, b Cell) int {
	switch a.K {
	case KInt:
		if a.I < b.I {
			return -1
		} else if a.I > b.I {
			return 1
		}
		return 0
	case KFloat:
		if a.F < b.F {
			return -1
		} else if a.F > b.F {
			return 1
		}
		return 0
	default:
		return strings.Compare(a.S, b.S)
	}
}

type Row []Cell

func (r Row) Canon() string {
	parts := make([]string, len(r))
	for i, c := range r {
		parts[i] = c.Canon()
	}
	return strings.Join(parts, "|")
}
func (r Row) String() string {
	parts := make([]string, len(r))
	for i, c := range r {
		parts[i] = c.String()
	}
	return "(" + strings.Join(parts, ", ") + ")"
}
func (r Row) Clone() Row { return append(Row(nil), r...) }

type Col struct {
	Name string `json:"name"`
	K    Kind   `json:"k"`
}

type Table struct {
	Name string
	Cols []Col
	Rows []Row
}

func (t *Table) Clone() *Table {
	n := &Table{Name: t.Name, Cols: append([]Col(nil), t.Cols...)}
	for _, r := range t.Rows {
		n.Rows = append(n.Rows, r.Clone())
	}
	return n
}

func (t *Table) ColIdx(name string) int {
	for i, c := range t.Cols {
		if c.Name == name {
			return i
		}
	}
	return -1
}

// ----- predicates

type CmpOp int

const (
	Eq CmpOp = iota
	Ne
	Lt
	Le
	Gt
	Ge
)

func (o CmpOp) SQL() string { return [...]string{"=", "<>", "<", "<=", ">", ">="}[o] }

// Pred is a predicate tree: leaf (Col op Lit) or AND/OR of two children.
type Pred struct {
	Logic string `json:"logic,omitempty"` // "", "AND", "OR"
	L     *Pred  `json:"l,omitempty"`
	R     *Pred  `json:"r,omitempty"`
	Col   string `json:"col,omitempty"`
	Op    CmpOp  `json:"op,omitempty"`
	Lit   Cell   `json:"lit,omitempty"`
	// LitLeft renders the leaf as "lit op' col" (mirrored operator) - same meaning.
	LitLeft bool `json:"litleft,omitempty"`
	Paren   bool `json:"paren,omitempty"`
}

func Leaf(col string, op CmpOp, lit Cell) *Pred { return &Pred{Col: col, Op: op, Lit: lit} }
func And(l, r *Pred) *Pred                      { return &Pred{Logic: "AND", L: l, R: r} }
func Or(l, r *Pred) *Pred                       { return &Pred{Logic: "OR", L: l, R: r} }

func mirror(o CmpOp) CmpOp {
	switch o {
	case Lt:
		return Gt
	case Le:
		return Ge
	case Gt:
		return Lt
	case Ge:
		return Le
	}
	return o
}

// SQL renders the predicate; prefix is prepended to column names ("" or "t.").
func (p *Pred) SQL(prefix string) string {
	if p.Logic == "" {
		lit, _ := p.Lit.SQLLit()
		if p.LitLeft {
			return lit + " " + mirror(p.Op).SQL() + " " + prefix + p.Col
		}
		return prefix + p.Col + " " + p.Op.SQL() + " " + lit
	}
	s := p.L.sqlChild(prefix, p.Logic) + " " + p.Logic + " " + p.R.sqlChild(prefix, p.Logic)
	return s
}
func (p *Pred) sqlChild(prefix, parent string) string {
	s := p.SQL(prefix)
	if p.Logic != "" && (p.Logic != parent || p.Paren) {
		return "(" + s + ")"
	}
	return s
}

// Tri is the three-valued result of evaluating a predicate against a row.
type Tri int

const (
	False Tri = iota
	True
	DontCare // NULL compared with <> : the property does not settle it
)

// Eval evaluates p over row r of table t.
func (p *Pred) Eval(t *Table, r Row) Tri {
	if p.Logic == "" {
		c := r[t.ColIdx(p.Col)]
		if c.Null {
			if p.Op == Ne {
				return DontCare
			}
			return False
		}
		cmp := Compare(c, p.Lit)
		var b bool
		switch p.Op {
		case Eq:
			b = cmp == 0
		case Ne:
			b = cmp != 0
		case Lt:
			b = cmp < 0
		case Le:
			b = cmp <= 0
		case Gt:
			b = cmp > 0
		case Ge:
			b = cmp >= 0
		}
		if b {
			return True
		}
		return False
	}
	a, b := p.L.Eval(t, r), p.R.Eval(t, r)
	if p.Logic == "AND" {
		if a == False || b == False {
			return False
		}
		if a == True && b == True {
			return True
		}
		return DontCare
	}
	if a == True || b == True {
		return True
	}
	if a == False && b == False {
		return False
	}
	return DontCare
}

// Leaves returns the comparison leaves in written order.
func (p *Pred) Leaves() []*Pred {
	if p == nil {
		return nil
	}
	if p.Logic == "" {
		return []*Pred{p}
	}
	return append(p.L.Leaves(), p.R.Leaves()...)
}

func (p *Pred) HasOr() bool {
	if p == nil || p.Logic == "" {
		return false
	}
	return p.Logic == "OR" || p.L.HasOr() || p.R.HasOr()
}

// Select evaluates "SELECT cols FROM t WHERE p": must = rows that must be returned, may = rows whose presence is don't-care.
func Select(t *Table, p *Pred, cols []string) (must, may []Row) {
	idx := make([]int, len(cols))
	for i, c := range cols {
		idx[i] = t.ColIdx(c)
	}
	for _, r := range t.Rows {
		v := True
		if p != nil {
			v = p.Eval(t, r)
		}
		if v == False {
			continue
		}
		out := make(Row, len(idx))
		for i, j := range idx {
			out[i] = r[j]
		}
		if v == True {
			must = append(must, out)
		} else {
			may = append(may, out)
		}
	}
	return
}

// DiffMultiset compares got with must (+ optional may rows). Returns "" when got is must plus a sub-multiset of may.
func DiffMultiset(got, must, may []Row) string {
	cnt := map[string]int{}
	for _, r := range got {
		cnt[r.Canon()]++
	}
	var missing []string
	for _, r := range must {
		k := r.Canon()
		if cnt[k] > 0 {
			cnt[k]--
		} else {
			missing = append(missing, r.String())
		}
	}
	for _, r := range may {
		k := r.Canon()
		if cnt[k] > 0 {
			cnt[k]--
		}
	}
	var extra []string
	byCanon := map[string]string{}
	for _, r := range got {
		byCanon[r.Canon()] = r.String()
	}
	keys := make([]string, 0, len(cnt))
	for k := range cnt {
		keys = append(keys, k)
	}
	sort.Strings(keys)
	for _, k := range keys {
		for i := 0; i < cnt[k]; i++ {
			extra = append(extra, byCanon[k])
		}
	}
	if len(missing) == 0 && len(extra) == 0 {
		return ""
	}
	clip := func(s []string) []string {
		if len(s) > 6 {
			return append(s[:6:6], fmt.Sprintf("... %d more", len(s)-6))
		}
		return s
	}
	return fmt.Sprintf("missing %d rows %v; extra %d rows %v (got %d, expected %d)", len(missing), clip(missing), len(extra), clip(extra), len(got), len(must))
}

// DiffKind classifies a multiset difference: "missing", "extra" or "both".
func DiffKind(got, must, may []Row) string {
	cnt := map[string]int{}
	for _, r := range got {
		cnt[r.Canon()]++
	}
	missing, extra := 0, 0
	for _, r := range must {
		k := r.Canon()
		if cnt[k] > 0 {
			cnt[k]--
		} else {
			missing++
		}
	}
	for _, r := range may {
		k := r.Canon()
		if cnt[k] > 0 {
			cnt[k]--
		}
	}
	for _, n := range cnt {
		extra += n
	}
	switch {
	case missing > 0 && extra > 0:
		return "both"
	case missing > 0:
		return "missing"
	case extra > 0:
		return "extra"
	}
	return ""
}

// Delete removes rows matching p (True only; DontCare rows are reported so the caller can avoid such statements).
func Delete(t *Table, p *Pred) (n int, dontCare int) {
	var keep []Row
	for _, r := range t.Rows {
		v := True
		if p != nil {
			v = p.Eval(t, r)
		}
		if v == DontCare {
			dontCare++
		}
		if v == True {
			n++
			continue
		}
		keep = append(keep, r)
	}
	t.Rows = keep
	return
}

// Update sets cols of rows matching p.
func Update(t *Table, p *Pred, set map[string]Cell) (n int, dontCare int) {
	for _, r := range t.Rows {
		v := True
		if p != nil {
			v = p.Eval(t, r)
		}
		if v == DontCare {
			dontCare++
		}
		if v == True {
			n++
			for c, val := range set {
				r[t.ColIdx(c)] = val
			}
		}
	}
	return
}
