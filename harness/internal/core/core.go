// Package core is the shared runner of the verification harness: sharded child processes with a
// journal (one engine panic must not end every monitor), aggregation, evidence files, replay
// files, VIOLATION / KNOWN-FINDING lines and the known-finding matcher.
package core

import (
	"bufio"
	"crypto/sha1"
	"encoding/hex"
	"encoding/json"
	"fmt"
	"math/rand"
	"os"
	"os/exec"
	"path/filepath"
	"runtime"
	"runtime/metrics"
	"sort"
	"strconv"
	"strings"
	"sync"
	"sync/atomic"
	"syscall"
	"time"
)

// VerifDir is where evidence, replays and known_findings.jsonl live (VERIF_DIR overrides it for scratch copies of the harness).
var VerifDir = func() string {
	if d := os.Getenv("VERIF_DIR"); d != "" {
		return d
	}
	return "/verif"
}()

// Env is what a case sees.
type Env struct {
	ID     string
	Tier   string
	Seed   int64
	TmpDir string // scratch directory of this child (exists, private)
	Race   bool   // running inside the -race binary
}

// Rand returns the PRNG of case idx: determined by (seed, id, idx) only.
func (e *Env) Rand(idx int) *rand.Rand {
	h := sha1.Sum([]byte(fmt.Sprintf("%s/%d/%d", e.ID, e.Seed, idx)))
	var s int64
	for i := 0; i < 8; i++ {
		s = s<<8 | int64(h[i])
	}
	return rand.New(rand.NewSource(s))
}

func (e *Env) Thorough() bool { return e.Tier == "thorough" }

// Violation is one refuting observation.
type Violation struct {
	Kind   string   `json:"kind"`           // deviation kind (outcome side)
	Tags   []string `json:"tags,omitempty"` // trigger tags derived from the INPUT of the case only
	Detail string   `json:"detail"`
	Case   any      `json:"case,omitempty"` // concrete case, human readable and replayable
}

// CaseResult is the three-valued verdict of one case plus what the monitor observed.
type CaseResult struct {
	Inconclusive string           `json:"inconclusive,omitempty"`
	Nontrivial   bool             `json:"nontrivial,omitempty"`
	Key          string           `json:"key,omitempty"` // canonical key for distinctness
	Stats        map[string]int64 `json:"stats,omitempty"`
	Sets         map[string][]string `json:"sets,omitempty"` // distinct things seen (plan shapes ...), unioned
	Sample       any              `json:"sample,omitempty"`
	Violations   []Violation      `json:"violations,omitempty"`
	// RestartChild asks the worker to exit after journalling this case (e.g. it had to abandon a hung engine goroutine).
	RestartChild bool `json:"restart_child,omitempty"`
}

func NewResult() *CaseResult {
	return &CaseResult{Stats: map[string]int64{}, Sets: map[string][]string{}}
}
func (r *CaseResult) Add(k string, n int64) { r.Stats[k] += n }
func (r *CaseResult) Seen(set, v string) {
	for _, x := range r.Sets[set] {
		if x == v {
			return
		}
	}
	r.Sets[set] = append(r.Sets[set], v)
}
func (r *CaseResult) Violate(kind string, tags []string, c any, format string, a ...any) {
	if len(r.Violations) >= 5 {
		return
	}
	r.Violations = append(r.Violations, Violation{Kind: kind, Tags: tags, Detail: fmt.Sprintf(format, a...), Case: c})
}

// Check describes one property check.
type Check struct {
	ID          string
	Level       string // exploration | fault_enumeration
	Rule        string
	Assumptions []string
	NumCases    func(env *Env) int
	RunCase     func(env *Env, idx int) *CaseResult
	// Witness re-runs a concrete case (known-finding witness or replay file "case").
	Witness func(env *Env, raw json.RawMessage) *CaseResult
	// Children is the number of parallel child processes (default 16).
	Children func(env *Env) int
	// CaseTimeout is the wall-clock watchdog per case (its firing is inconclusive).
	CaseTimeout time.Duration
	NeedRace    bool
	// PostShard is called in the parent after a shard's child has exited (e.g. race log parsing).
	PostShard func(env *Env, shardDir string, agg *Aggregate)
	// Vacuity returns reasons why the run observed too little to count (broken run), given the aggregate.
	Vacuity func(env *Env, agg *Aggregate) []string
	// Extra adds check-specific keys to the coverage object.
	Extra func(env *Env, agg *Aggregate) map[string]any
	// ChildEnv adds environment variables for a child working in shardDir.
	ChildEnv func(env *Env, shardDir string) []string
	// HashTimeoutAsDeadlock: a watchdog kill counts as violation kind "hang" (only where the check can prove quiescence itself).
}

var registry = map[string]*Check{}

func Register(c *Check) { registry[c.ID] = c }
func Lookup(id string) *Check { return registry[id] }
func IDs() []string {
	var r []string
	for k := range registry {
		r = append(r, k)
	}
	sort.Strings(r)
	return r
}

// Aggregate is what the parent accumulates.
type Aggregate struct {
	mu           sync.Mutex
	Evaluations  int
	Inconclusive int
	InconcWhy    map[string]int
	Distinct     map[string]bool
	Stats        map[string]int64
	Sets         map[string]map[string]bool
	Samples      []any
	Violations   []FoundViolation
	Crashes      int
}

type FoundViolation struct {
	Idx int
	V   Violation
}

func newAgg() *Aggregate {
	return &Aggregate{InconcWhy: map[string]int{}, Distinct: map[string]bool{}, Stats: map[string]int64{}, Sets: map[string]map[string]bool{}}
}

func (a *Aggregate) AddResult(idx int, r *CaseResult) {
	a.mu.Lock()
	defer a.mu.Unlock()
	a.Evaluations++
	if r.Inconclusive != "" {
		a.Inconclusive++
		a.InconcWhy[r.Inconclusive]++
	}
	if r.Nontrivial {
		k := r.Key
		if k == "" {
			k = "idx:" + strconv.Itoa(idx)
		}
		a.Distinct[k] = true
	}
	for k, v := range r.Stats {
		a.Stats[k] += v
	}
	for k, vs := range r.Sets {
		if a.Sets[k] == nil {
			a.Sets[k] = map[string]bool{}
		}
		for _, v := range vs {
			a.Sets[k][v] = true
		}
	}
	if r.Sample != nil && len(a.Samples) < 4 {
		a.Samples = append(a.Samples, r.Sample)
	}
	for _, v := range r.Violations {
		a.Violations = append(a.Violations, FoundViolation{idx, v})
	}
}

// AddObservation merges what a post-processing step saw (stats, sets, violations) without counting a case.
func (a *Aggregate) AddObservation(r *CaseResult) {
	a.mu.Lock()
	defer a.mu.Unlock()
	for k, v := range r.Stats {
		a.Stats[k] += v
	}
	for k, vs := range r.Sets {
		if a.Sets[k] == nil {
			a.Sets[k] = map[string]bool{}
		}
		for _, v := range vs {
			a.Sets[k][v] = true
		}
	}
	for _, v := range r.Violations {
		a.Violations = append(a.Violations, FoundViolation{-1, v})
	}
}

func (a *Aggregate) SetNames(set string) []string {
	var r []string
	for k := range a.Sets[set] {
		r = append(r, k)
	}
	sort.Strings(r)
	return r
}

// ---------------------------------------------------------------------------------------------
// known findings

type Finding struct {
	Status   string          `json:"status"` // open | fixed
	Property string          `json:"property"`
	ID       string          `json:"id"`
	What     string          `json:"what"`
	Kind     string          `json:"kind,omitempty"` // deviation kind that is attributed
	Tag      string          `json:"tag,omitempty"`  // trigger tag (input side) that must be present
	TagContains []string     `json:"tag_contains,omitempty"` // alternative to Tag: some tag of the violation contains all of these substrings
	Witness  json.RawMessage `json:"witness,omitempty"`
	Commit   string          `json:"commit,omitempty"`
}

func LoadFindings(prop string) []Finding {
	f, err := os.Open(filepath.Join(VerifDir, "known_findings.jsonl"))
	if err != nil {
		return nil
	}
	defer f.Close()
	var out []Finding
	sc := bufio.NewScanner(f)
	sc.Buffer(make([]byte, 1<<20), 1<<26)
	for sc.Scan() {
		line := strings.TrimSpace(sc.Text())
		if line == "" || strings.HasPrefix(line, "#") {
			continue
		}
		var fd Finding
		if err := json.Unmarshal([]byte(line), &fd); err != nil {
			fmt.Fprintf(os.Stderr, "known_findings.jsonl: bad line: %v\n", err)
			continue
		}
		if fd.Property == prop && fd.Status == "open" {
			out = append(out, fd)
		}
	}
	return out
}

func (f *Finding) matches(v *Violation) bool {
	if !kindMatches(f.Kind, v.Kind) {
		return false
	}
	if f.Tag == "" && len(f.TagContains) == 0 {
		return false
	}
	for _, t := range v.Tags {
		if f.Tag != "" && t == f.Tag {
			return true
		}
		if len(f.TagContains) > 0 {
			all := true
			for _, sub := range f.TagContains {
				if !strings.Contains(t, sub) {
					all = false
				}
			}
			if all {
				return true
			}
		}
	}
	return false
}

// ---------------------------------------------------------------------------------------------
// child side

type journalRec struct {
	Idx int         `json:"i"`
	Res *CaseResult `json:"r"`
}

// WorkerMain runs shard `shard` of `of`, starting at case index `from`.
func WorkerMain(c *Check, env *Env, shard, of, from int, journal string, only bool) {
	jf, err := os.OpenFile(journal, os.O_APPEND|os.O_CREATE|os.O_WRONLY, 0644)
	if err != nil {
		fmt.Fprintln(os.Stderr, "journal:", err)
		os.Exit(3)
	}
	n := c.NumCases(env)
	var curIdx atomic.Int64
	go memoryWatchdog(&curIdx)
	for idx := from; idx < n; idx++ {
		if idx%of != shard {
			continue
		}
		curIdx.Store(int64(idx))
		fmt.Fprintf(jf, "S %d\n", idx)
		res := runCaseGuarded(c, env, idx)
		b, _ := json.Marshal(journalRec{idx, res})
		fmt.Fprintf(jf, "E %s\n", b)
		if only {
			break
		}
		if res != nil && res.RestartChild {
			jf.Close()
			os.Exit(75)
		}
	}
	jf.Close()
}

// memoryWatchdog ends the child (exit 4, goroutine dump on stderr) when its memory exceeds VERIF_MEMLIMIT_MB (default 16384):
// an engine loop that allocates without bound becomes a reported crash of the journalled case instead of a machine-wide OOM.
func memoryWatchdog(cur *atomic.Int64) {
	limit := uint64(16384)
	if v, err := strconv.ParseUint(os.Getenv("VERIF_MEMLIMIT_MB"), 10, 64); err == nil && v > 0 {
		limit = v
	}
	sample := []metrics.Sample{{Name: "/memory/classes/total:bytes"}, {Name: "/memory/classes/heap/released:bytes"}}
	for {
		time.Sleep(100 * time.Millisecond)
		metrics.Read(sample)
		used := (sample[0].Value.Uint64() - sample[1].Value.Uint64()) >> 20
		if used > limit {
			buf := make([]byte, 1<<20)
			buf = buf[:runtime.Stack(buf, true)]
			fmt.Fprintf(os.Stderr, "fatal error: memory watchdog: the process holds %d MB (limit %d MB) in case %d; engine frames: %s\n\n%s\n", used, limit, cur.Load(), engineFramesOf(string(buf)), buf)
			os.Exit(4)
		}
	}
}

// runCaseGuarded converts a panic on the case goroutine into a violation of kind "panic".
func runCaseGuarded(c *Check, env *Env, idx int) (res *CaseResult) {
	defer func() {
		if p := recover(); p != nil {
			res = NewResult()
			res.Violate("panic", nil, map[string]any{"seed": env.Seed, "tier": env.Tier, "idx": idx}, "uncaught panic in case: %v", p)
		}
	}()
	return c.RunCase(env, idx)
}

// ---------------------------------------------------------------------------------------------
// parent side

type RunOpts struct {
	Replay string
	Self   string // path of this binary
}

func tmpBase() string {
	if d := os.Getenv("VERIF_TMP"); d != "" {
		return d
	}
	if st, err := os.Stat("/dev/shm"); err == nil && st.IsDir() {
		return "/dev/shm"
	}
	return os.TempDir()
}

// Main runs a whole check in the parent and returns the exit code.
func Main(c *Check, env *Env, opts RunOpts) int {
	start := time.Now()
	base := filepath.Join(tmpBase(), fmt.Sprintf("verif.%s.%d", c.ID, os.Getpid()))
	os.RemoveAll(base)
	if err := os.MkdirAll(base, 0755); err != nil {
		fmt.Println("cannot create scratch dir:", err)
		return 2
	}
	defer os.RemoveAll(base)

	if opts.Replay != "" {
		return replayMain(c, env, opts, base)
	}

	agg := newAgg()
	n := c.NumCases(env)
	children := 16
	if c.Children != nil {
		children = c.Children(env)
	}
	if children > n {
		children = n
	}
	if children < 1 {
		children = 1
	}
	var wg sync.WaitGroup
	for s := 0; s < children; s++ {
		wg.Add(1)
		go func(s int) {
			defer wg.Done()
			runShard(c, env, opts, base, s, children, n, agg)
		}(s)
	}
	wg.Wait()

	// known findings: witnesses + attribution
	findings := LoadFindings(c.ID)
	known := map[string]int{}
	witnessOK := map[string]bool{}
	for i := range findings {
		f := &findings[i]
		if len(f.Witness) > 0 && c.Witness != nil {
			r := runWitnessChild(c, env, opts, base, f.Witness, "w"+strconv.Itoa(i))
			if r != nil && len(r.Violations) > 0 {
				for _, v := range r.Violations {
					if kindMatches(f.Kind, v.Kind) {
						witnessOK[f.ID] = true
					}
				}
			}
		}
	}
	var unexplained []FoundViolation
	for _, fv := range agg.Violations {
		matched := false
		for i := range findings {
			if findings[i].matches(&fv.V) {
				known[findings[i].ID]++
				matched = true
				break
			}
		}
		if !matched {
			unexplained = append(unexplained, fv)
		}
	}
	for _, f := range findings {
		// one line per listed finding in every run; whether this run met it is said in the line
		fmt.Printf("KNOWN-FINDING: property=%s %s: %s (witness reproduced: %v, explored cases attributed: %d)\n", c.ID, f.ID, f.What, witnessOK[f.ID], known[f.ID])
		if !witnessOK[f.ID] && known[f.ID] == 0 {
			fmt.Printf("NOTE: listed finding %s of %s was not met by this run (no explored case in its trigger region deviated, witness not reproduced)\n", f.ID, c.ID)
		}
	}

	// triage summary: violations grouped by (kind, tags)
	if len(unexplained) > 0 {
		grp := map[string]int{}
		for _, fv := range unexplained {
			grp[fv.V.Kind+" "+strings.Join(fv.V.Tags, ",")]++
		}
		gk := make([]string, 0, len(grp))
		for k := range grp {
			gk = append(gk, k)
		}
		sort.Slice(gk, func(i, j int) bool { return grp[gk[i]] > grp[gk[j]] })
		for i, k := range gk {
			if i >= 40 {
				break
			}
			fmt.Printf("  group %5d x %s\n", grp[k], k)
		}
	}
	// violations
	code := 0
	seen := map[string]bool{}
	printed := 0
	for _, fv := range unexplained {
		rep := map[string]any{"property": c.ID, "seed": env.Seed, "tier": env.Tier, "idx": fv.Idx, "kind": fv.V.Kind, "tags": fv.V.Tags, "detail": fv.V.Detail, "case": fv.V.Case}
		b, _ := json.MarshalIndent(rep, "", " ")
		h := sha1.Sum([]byte(fmt.Sprintf("%s|%s|%d|%d|%s", c.ID, fv.V.Kind, env.Seed, fv.Idx, fv.V.Detail)))
		name := hex.EncodeToString(h[:8])
		if seen[name] {
			continue
		}
		seen[name] = true
		code = 1
		if printed < maxPrinted() {
			dir := filepath.Join(VerifDir, "replays", c.ID)
			os.MkdirAll(dir, 0755)
			p := filepath.Join(dir, name+".json")
			os.WriteFile(p, b, 0644)
			fmt.Printf("VIOLATION property=%s replay=%s\n", c.ID, p)
			d := fv.V.Detail
			if len(d) > 600 {
				d = d[:600] + "..."
			}
			fmt.Printf("  kind=%s tags=%v idx=%d: %s\n", fv.V.Kind, fv.V.Tags, fv.Idx, d)
			printed++
		}
	}

	// vacuity
	var vac []string
	if agg.Evaluations == 0 {
		vac = append(vac, "no case was executed")
	}
	if agg.Evaluations > 0 && agg.Inconclusive*2 > agg.Evaluations {
		vac = append(vac, fmt.Sprintf("%d of %d cases inconclusive", agg.Inconclusive, agg.Evaluations))
	}
	if len(agg.Distinct) < 2 {
		vac = append(vac, fmt.Sprintf("only %d distinct non-trivial cases", len(agg.Distinct)))
	}
	if c.Vacuity != nil {
		vac = append(vac, c.Vacuity(env, agg)...)
	}

	wall := time.Since(start).Seconds()
	writeEvidence(c, env, agg, known, len(unexplained), vac, wall)

	fmt.Printf("%s tier=%s seed=%d: %d cases, %d distinct non-trivial, %d inconclusive, %d violations (%d attributed to listed findings), %d child crashes, %.1fs\n",
		c.ID, env.Tier, env.Seed, agg.Evaluations, len(agg.Distinct), agg.Inconclusive, len(agg.Violations), len(agg.Violations)-len(unexplained), agg.Crashes, wall)
	keys := make([]string, 0, len(agg.Stats))
	for k := range agg.Stats {
		keys = append(keys, k)
	}
	sort.Strings(keys)
	var sb strings.Builder
	for _, k := range keys {
		fmt.Fprintf(&sb, " %s=%d", k, agg.Stats[k])
	}
	fmt.Println(" observed:" + sb.String())
	if len(agg.InconcWhy) > 0 {
		fmt.Printf(" inconclusive reasons: %v\n", agg.InconcWhy)
	}
	if code == 0 && len(vac) > 0 {
		for _, v := range vac {
			fmt.Printf("BROKEN-RUN property=%s: %s\n", c.ID, v)
		}
		return 2
	}
	return code
}

func childCmd(c *Check, env *Env, opts RunOpts, dir string, args ...string) *exec.Cmd {
	cmd := exec.Command(opts.Self, args...)
	cmd.Env = append(os.Environ(), "VERIF_CHILD=1")
	if c.ChildEnv != nil {
		cmd.Env = append(cmd.Env, c.ChildEnv(env, dir)...)
	}
	cmd.Dir = dir
	out, _ := os.Create(filepath.Join(dir, "out.log"))
	cmd.Stdout = out
	cmd.Stderr = out
	cmd.SysProcAttr = &syscall.SysProcAttr{Setpgid: true}
	return cmd
}

func tailFile(p string, n int) string {
	b, err := os.ReadFile(p)
	if err != nil {
		return ""
	}
	if len(b) > n {
		b = b[len(b)-n:]
	}
	return string(b)
}

// panicHead extracts the first panic / fatal error message and the first engine frames from a child log.
func panicHead(p string) string {
	b, err := os.ReadFile(p)
	if err != nil {
		return ""
	}
	s := string(b)
	i := strings.Index(s, "panic:")
	if j := strings.Index(s, "fatal error:"); j >= 0 && (i < 0 || j < i) {
		i = j
	}
	if i < 0 {
		if len(s) > 1500 {
			s = s[len(s)-1500:]
		}
		return s
	}
	s = s[i:]
	if len(s) > 2500 {
		s = s[:2500]
	}
	return s
}

func runShard(c *Check, env *Env, opts RunOpts, base string, shard, of, n int, agg *Aggregate) {
	dir := filepath.Join(base, fmt.Sprintf("s%d", shard))
	os.MkdirAll(dir, 0755)
	journal := filepath.Join(dir, "journal")
	from := 0
	perCase := c.CaseTimeout
	if perCase == 0 {
		perCase = 120 * time.Second
	}
	if env.Thorough() {
		perCase *= 4 // thorough runs share the machine with other thorough runs; the watchdog is never a verdict anyway
	}
	done := map[int]bool{}
	for attempt := 0; attempt < 200; attempt++ {
		os.Remove(journal)
		cmd := childCmd(c, env, opts, dir, "__worker", c.ID, "--tier", env.Tier, "--seed", strconv.FormatInt(env.Seed, 10),
			"--shard", strconv.Itoa(shard), "--of", strconv.Itoa(of), "--from", strconv.Itoa(from), "--journal", journal, "--tmp", dir)
		if err := cmd.Start(); err != nil {
			fmt.Println("cannot start child:", err)
			return
		}
		exited := make(chan error, 1)
		go func() { exited <- cmd.Wait() }()
		// watchdog: progress based. If the journal does not grow for perCase, kill.
		var werr error
		timedOut := false
		lastSize := int64(-1)
		lastChange := time.Now()
	loop:
		for {
			select {
			case werr = <-exited:
				break loop
			case <-time.After(500 * time.Millisecond):
				st, err := os.Stat(journal)
				var sz int64
				if err == nil {
					sz = st.Size()
				}
				if sz != lastSize {
					lastSize = sz
					lastChange = time.Now()
				} else if time.Since(lastChange) > perCase {
					timedOut = true
					syscall.Kill(-cmd.Process.Pid, syscall.SIGQUIT)
					select {
					case werr = <-exited:
					case <-time.After(10 * time.Second):
						syscall.Kill(-cmd.Process.Pid, syscall.SIGKILL)
						werr = <-exited
					}
					break loop
				}
			}
		}
		// read the journal
		openIdx := -1
		if f, err := os.Open(journal); err == nil {
			sc := bufio.NewScanner(f)
			sc.Buffer(make([]byte, 1<<20), 1<<28)
			for sc.Scan() {
				line := sc.Text()
				if strings.HasPrefix(line, "S ") {
					openIdx, _ = strconv.Atoi(line[2:])
				} else if strings.HasPrefix(line, "E ") {
					var jr journalRec
					if err := json.Unmarshal([]byte(line[2:]), &jr); err == nil && jr.Res != nil {
						if !done[jr.Idx] {
							done[jr.Idx] = true
							agg.AddResult(jr.Idx, jr.Res)
						}
						if jr.Idx == openIdx {
							openIdx = -1
						}
					}
				}
			}
			f.Close()
		}
		if c.PostShard != nil {
			c.PostShard(env, dir, agg)
		}
		if werr == nil && openIdx < 0 {
			return
		}
		if ee, ok := werr.(*exec.ExitError); ok && ee.ExitCode() == 75 && openIdx < 0 {
			last := -1
			for i := range done {
				if i > last {
					last = i
				}
			}
			from = last + 1
			if from >= n {
				return
			}
			continue
		}
		if openIdx < 0 {
			// died outside a case (start-up failure): report once and stop this shard
			r := NewResult()
			r.Inconclusive = "child failed outside a case: " + tailFile(filepath.Join(dir, "out.log"), 400)
			agg.AddResult(-1-shard, r)
			return
		}
		r := NewResult()
		if timedOut {
			r.Inconclusive = "watchdog"
			fmt.Printf("NOTE: %s case %d hit the watchdog (inconclusive); engine frames in the goroutine dump: %s\n", c.ID, openIdx, hangFrames(filepath.Join(dir, "out.log")))
			os.WriteFile(filepath.Join(dir, fmt.Sprintf("timeout-%d.log", openIdx)), []byte(tailFile(filepath.Join(dir, "out.log"), 1<<20)), 0644)
			if hook := hangHook[c.ID]; hook != nil {
				hook(env, openIdx, filepath.Join(dir, "out.log"), r)
			}
		} else {
			agg.mu.Lock()
			agg.Crashes++
			agg.mu.Unlock()
			tags := []string(nil)
			if th := crashTagHook[c.ID]; th != nil {
				tags = th(env, openIdx)
			}
			if th := crashTagLogHook[c.ID]; th != nil {
				tags = append(tags, th(env, openIdx, filepath.Join(dir, "out.log"))...)
			}
			r.Violate("crash", tags, map[string]any{"seed": env.Seed, "tier": env.Tier, "idx": openIdx}, "child process died in case %d: %s", openIdx, panicHead(filepath.Join(dir, "out.log")))
		}
		done[openIdx] = true
		agg.AddResult(openIdx, r)
		from = openIdx + 1
		if from >= n {
			return
		}
	}
}

// hangHook lets a check turn a watchdog kill into a violation when the goroutine dump proves a deadlock.
var hangHook = map[string]func(env *Env, idx int, logPath string, r *CaseResult){}

func SetHangHook(id string, f func(env *Env, idx int, logPath string, r *CaseResult)) { hangHook[id] = f }

// crashTagHook computes the input-side trigger tags of a case whose child died (the child cannot report them).
var crashTagHook = map[string]func(env *Env, idx int) []string{}

func SetCrashTagHook(id string, f func(env *Env, idx int) []string) { crashTagHook[id] = f }

// crashTagLogHook: the same for checks whose input-side tags are only known while the case runs; the child prints them to its
// log (stderr) as they arise and the parent reads them back from there.
var crashTagLogHook = map[string]func(env *Env, idx int, logPath string) []string{}

func SetCrashTagLogHook(id string, f func(env *Env, idx int, logPath string) []string) {
	crashTagLogHook[id] = f
}

// StickyTagsFromLog returns the tags of the last "STICKY-TAGS idx=<idx> t1 t2 ..." line of a child's log.
func StickyTagsFromLog(logPath string, idx int) []string {
	b, err := os.ReadFile(logPath)
	if err != nil {
		return nil
	}
	var tags []string
	prefix := fmt.Sprintf("STICKY-TAGS idx=%d ", idx)
	for _, line := range strings.Split(string(b), "\n") {
		if strings.HasPrefix(line, prefix) {
			tags = strings.Fields(line[len(prefix):])
		}
	}
	return tags
}

func runWitnessChild(c *Check, env *Env, opts RunOpts, base string, raw json.RawMessage, name string) *CaseResult {
	dir := filepath.Join(base, name)
	os.MkdirAll(dir, 0755)
	wf := filepath.Join(dir, "witness.json")
	os.WriteFile(wf, raw, 0644)
	rf := filepath.Join(dir, "result.json")
	cmd := childCmd(c, env, opts, dir, "__witness", c.ID, "--tier", env.Tier, "--seed", strconv.FormatInt(env.Seed, 10), "--in", wf, "--out", rf, "--tmp", dir)
	if err := cmd.Start(); err != nil {
		return nil
	}
	exited := make(chan error, 1)
	go func() { exited <- cmd.Wait() }()
	to := c.CaseTimeout
	if to == 0 {
		to = 120 * time.Second
	}
	select {
	case err := <-exited:
		if b, e := os.ReadFile(rf); e == nil {
			var r CaseResult
			if json.Unmarshal(b, &r) == nil {
				return &r
			}
		}
		if err != nil {
			r := NewResult()
			r.Violate("crash", nil, nil, "witness child died: %s", panicHead(filepath.Join(dir, "out.log")))
			return r
		}
		return nil
	case <-time.After(to):
		syscall.Kill(-cmd.Process.Pid, syscall.SIGKILL)
		<-exited
		r := NewResult()
		r.Inconclusive = "watchdog"
		return r
	}
}

// WitnessMain is the child side of runWitnessChild.
func WitnessMain(c *Check, env *Env, in, out string) {
	raw, err := os.ReadFile(in)
	if err != nil {
		os.Exit(3)
	}
	var res *CaseResult
	func() {
		defer func() {
			if p := recover(); p != nil {
				res = NewResult()
				res.Violate("panic", nil, nil, "uncaught panic: %v", p)
			}
		}()
		res = c.Witness(env, raw)
	}()
	b, _ := json.Marshal(res)
	os.WriteFile(out, b, 0644)
}

func replayMain(c *Check, env *Env, opts RunOpts, base string) int {
	b, err := os.ReadFile(opts.Replay)
	if err != nil {
		fmt.Println("cannot read replay file:", err)
		return 2
	}
	var rep struct {
		Seed int64           `json:"seed"`
		Tier string          `json:"tier"`
		Idx  int             `json:"idx"`
		Case json.RawMessage `json:"case"`
	}
	if err := json.Unmarshal(b, &rep); err != nil {
		fmt.Println("bad replay file:", err)
		return 2
	}
	env.Seed, env.Tier = rep.Seed, rep.Tier
	agg := newAgg()
	// one shard containing exactly idx: run worker with shard = idx, of = huge
	dir := filepath.Join(base, "replay")
	os.MkdirAll(dir, 0755)
	journal := filepath.Join(dir, "journal")
	cmd := childCmd(c, env, opts, dir, "__worker", c.ID, "--tier", env.Tier, "--seed", strconv.FormatInt(env.Seed, 10),
		"--shard", strconv.Itoa(rep.Idx), "--of", "1000000000", "--from", strconv.Itoa(rep.Idx), "--journal", journal, "--tmp", dir, "--only", "1")
	err = cmd.Run()
	if f, e := os.Open(journal); e == nil {
		sc := bufio.NewScanner(f)
		sc.Buffer(make([]byte, 1<<20), 1<<28)
		for sc.Scan() {
			if strings.HasPrefix(sc.Text(), "E ") {
				var jr journalRec
				if json.Unmarshal([]byte(sc.Text()[2:]), &jr) == nil && jr.Res != nil {
					agg.AddResult(jr.Idx, jr.Res)
				}
			}
		}
		f.Close()
	}
	if agg.Evaluations == 0 {
		fmt.Printf("replay: child died: %s\n", panicHead(filepath.Join(dir, "out.log")))
		// the same attribution as in a full run: input-side tags of the dead case against the listed findings
		var tags []string
		if th := crashTagHook[c.ID]; th != nil {
			tags = th(env, rep.Idx)
		}
		if th := crashTagLogHook[c.ID]; th != nil {
			tags = append(tags, th(env, rep.Idx, filepath.Join(dir, "out.log"))...)
		}
		cv := Violation{Kind: "crash", Tags: tags}
		for _, f := range LoadFindings(c.ID) {
			if f.Status == "open" && f.matches(&cv) {
				fmt.Printf("KNOWN-FINDING: property=%s %s: %s\n", c.ID, f.ID, f.What)
				return 0
			}
		}
		fmt.Printf("VIOLATION property=%s replay=%s\n", c.ID, opts.Replay)
		return 1
	}
	if len(agg.Violations) > 0 {
		// the same attribution as in a full run: a violation covered by a listed finding is reported as such
		findings := LoadFindings(c.ID)
		unlisted := 0
		named := map[string]bool{}
		for _, v := range agg.Violations {
			var hit *Finding
			for i := range findings {
				if findings[i].Status == "open" && findings[i].matches(&v.V) {
					hit = &findings[i]
					break
				}
			}
			if hit != nil {
				fmt.Printf("replay: kind=%s [listed finding %s] %s\n", v.V.Kind, hit.ID, v.V.Detail)
				if !named[hit.ID] {
					named[hit.ID] = true
					fmt.Printf("KNOWN-FINDING: property=%s %s: %s\n", c.ID, hit.ID, hit.What)
				}
				continue
			}
			unlisted++
			fmt.Printf("replay: kind=%s %s\n", v.V.Kind, v.V.Detail)
		}
		if unlisted > 0 {
			fmt.Printf("VIOLATION property=%s replay=%s\n", c.ID, opts.Replay)
			return 1
		}
		return 0
	}
	_ = err
	fmt.Println("replay: the case held this time")
	return 0
}

func writeEvidence(c *Check, env *Env, agg *Aggregate, known map[string]int, unexplained int, vac []string, wall float64) {
	cov := map[string]any{
		"evaluations":         agg.Evaluations,
		"distinct_nontrivial": len(agg.Distinct),
		"rule":                c.Rule,
		"samples":             agg.Samples,
		"inconclusive":        agg.Inconclusive,
		"observed":            agg.Stats,
		"child_crashes":       agg.Crashes,
	}
	if len(agg.Samples) == 0 {
		cov["samples"] = []any{"(no sample recorded)"}
	}
	sets := map[string][]string{}
	for k := range agg.Sets {
		sets[k] = agg.SetNames(k)
	}
	if len(sets) > 0 {
		cov["distinct_seen"] = sets
	}
	if len(known) > 0 {
		cov["cases_attributed_to_listed_findings"] = known
	}
	if len(vac) > 0 {
		cov["vacuity_failures"] = vac
	}
	if len(agg.InconcWhy) > 0 {
		cov["inconclusive_reasons"] = agg.InconcWhy
	}
	if c.Extra != nil {
		for k, v := range c.Extra(env, agg) {
			cov[k] = v
		}
	}
	ev := map[string]any{
		"property_id": c.ID,
		"tier":        env.Tier,
		"seed":        env.Seed,
		"level":       c.Level,
		"coverage":    cov,
		"assumptions": c.Assumptions,
		"wall_s":      wall,
		"violations":  unexplained,
	}
	b, _ := json.MarshalIndent(ev, "", " ")
	os.MkdirAll(filepath.Join(VerifDir, "evidence"), 0755)
	os.WriteFile(filepath.Join(VerifDir, "evidence", c.ID+".json"), b, 0644)
}

func maxPrinted() int {
	if v := os.Getenv("VERIF_MAXPRINT"); v != "" {
		if n, err := strconv.Atoi(v); err == nil {
			return n
		}
	}
	return 25
}

// kindMatches: pattern is "" (any), or alternatives separated by "|", each exact or with a trailing "*".
func kindMatches(pattern, kind string) bool {
	if pattern == "" {
		return true
	}
	for _, p := range strings.Split(pattern, "|") {
		if strings.HasSuffix(p, "*") {
			if strings.HasPrefix(kind, strings.TrimSuffix(p, "*")) {
				return true
			}
		} else if p == kind {
			return true
		}
	}
	return false
}

// hangFrames lists the distinct innermost engine frames found in a goroutine dump.
func hangFrames(p string) string {
	b, err := os.ReadFile(p)
	if err != nil {
		return ""
	}
	return engineFramesOf(string(b))
}

// engineFramesOf lists the innermost engine function of every goroutine in a dump (distinct, at most 8).
func engineFramesOf(dump string) string {
	b := []byte(dump)
	seen := map[string]bool{}
	var out []string
	for _, g := range strings.Split(string(b), "\n\n") {
		for _, line := range strings.Split(g, "\n") {
			if strings.HasPrefix(line, "github.com/ryogrid/") {
				f := line
				if i := strings.LastIndex(f, "("); i > 0 {
					f = f[:i]
				}
				f = strings.TrimPrefix(f, "github.com/ryogrid/SamehadaDB/lib/")
				if !seen[f] {
					seen[f] = true
					out = append(out, f)
				}
				break
			}
		}
		if len(out) >= 8 {
			break
		}
	}
	return strings.Join(out, " | ")
}
