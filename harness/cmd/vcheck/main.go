// vcheck: one binary for every property check. `vcheck <ID> --tier T --seed S [--replay f]` is the parent;
// `vcheck __worker ...` / `vcheck __witness ...` are the child modes.
package main

import (
	"flag"
	"fmt"
	"os"
	"strconv"

	"verifharness/checks"
	"verifharness/internal/core"
)

func main() {
	if len(os.Args) < 2 {
		fmt.Println("usage: vcheck <ID> --tier quick|thorough --seed N [--replay file]; checks:", core.IDs())
		os.Exit(2)
	}
	mode := os.Args[1]
	switch mode {
	case "__crashdump":
		fs := flag.NewFlagSet(mode, flag.ExitOnError)
		seed := fs.Int64("seed", 1, "")
		tier := fs.String("tier", "quick", "")
		idx := fs.Int("idx", 0, "")
		k := fs.Int("k", 0, "")
		tear := fs.Int("tear", 0, "")
		fs.Parse(os.Args[3:])
		checks.CrashDump(os.Args[2], *seed, *tier, *idx, *k, *tear)
		return
	case "__worker", "__witness":
		id := os.Args[2]
		fs := flag.NewFlagSet(mode, flag.ExitOnError)
		tier := fs.String("tier", "quick", "")
		seed := fs.Int64("seed", 1, "")
		shard := fs.Int("shard", 0, "")
		of := fs.Int("of", 1, "")
		from := fs.Int("from", 0, "")
		only := fs.Int("only", 0, "")
		journal := fs.String("journal", "", "")
		tmp := fs.String("tmp", "", "")
		in := fs.String("in", "", "")
		out := fs.String("out", "", "")
		fs.Parse(os.Args[3:])
		c := core.Lookup(id)
		if c == nil {
			fmt.Println("unknown check", id)
			os.Exit(2)
		}
		env := &core.Env{ID: id, Tier: *tier, Seed: *seed, TmpDir: *tmp, Race: raceEnabled}
		if mode == "__worker" {
			core.WorkerMain(c, env, *shard, *of, *from, *journal, *only == 1)
		} else {
			core.WitnessMain(c, env, *in, *out)
		}
		return
	}
	id := mode
	fs := flag.NewFlagSet("vcheck", flag.ExitOnError)
	tier := fs.String("tier", envOr("VERIF_TIER", "quick"), "")
	seedDef, _ := strconv.ParseInt(envOr("VERIF_SEED", "1"), 10, 64)
	seed := fs.Int64("seed", seedDef, "")
	replay := fs.String("replay", "", "")
	fs.Parse(os.Args[2:])
	c := core.Lookup(id)
	if c == nil {
		fmt.Println("unknown check", id, "; known:", core.IDs())
		os.Exit(2)
	}
	if c.NeedRace && !raceEnabled {
		fmt.Println("check", id, "must be run with the -race binary")
		os.Exit(2)
	}
	self, _ := os.Executable()
	env := &core.Env{ID: id, Tier: *tier, Seed: *seed, Race: raceEnabled}
	os.Exit(core.Main(c, env, core.RunOpts{Replay: *replay, Self: self}))
}

func envOr(k, d string) string {
	if v := os.Getenv(k); v != "" {
		return v
	}
	return d
}
