#!/bin/bash
# Every MANIFEST command goes through this script: ./run.sh <ID> <quick|thorough> [--replay <file>]  |  ./run.sh build
# It rebuilds the harness (and with it the engine, through the `replace` directive) from /repo's current working tree
# with the hooks enabled (build tag `verif`) and runs the check.
set -u
cd "$(dirname "$0")"
export GOFLAGS=-mod=mod GOPROXY=off GOSUMDB=off GOTOOLCHAIN=local
export GOMAXPROCS=${GOMAXPROCS:-16}
ROOT=$(pwd)
mkdir -p bin evidence replays

build_plain() {
  (cd harness && go build -tags verif -o "$ROOT/bin/vcheck" ./cmd/vcheck) || { echo "BUILD FAILED (vcheck)"; exit 3; }
}
build_race() {
  (cd harness && go build -race -tags verif -o "$ROOT/bin/vcheck-race" ./cmd/vcheck) || { echo "BUILD FAILED (vcheck-race)"; exit 3; }
}

if [ "${1:-}" = "build" ]; then
  build_plain; build_race; echo "build ok"; exit 0
fi

ID=${1:?usage: run.sh <ID> <quick|thorough> [--replay file]}
TIER=${2:-${VERIF_TIER:-quick}}
shift; shift || true
SEED=${VERIF_SEED:-1}
case "$ID" in
  C19) build_race; BIN=bin/vcheck-race ;;
  *)   build_plain; BIN=bin/vcheck ;;
esac
exec "$BIN" "$ID" --tier "$TIER" --seed "$SEED" "$@"
