#!/bin/bash
# usage: tools/seed_eval.sh <patch.diff> <check ids...>  - applies a seeded change to /repo, runs the quick checks, reverts.
set -u
P=${1:?patch}; shift
cd /repo || exit 2
if [ -n "$(git status --porcelain --untracked-files=no)" ]; then echo "/repo has uncommitted changes - refusing"; exit 2; fi
git apply --check "$P" || { echo "patch does not apply"; exit 2; }
git apply "$P"
trap 'git -C /repo checkout -- . ; git -C /repo status --short --untracked-files=no | head -3' EXIT
for c in "$@"; do
  out=$(cd /verif && VERIF_MAXPRINT=2 ${SEED_TIER_CMD:-./run.sh $c ${SEED_TIER:-quick}} 2>&1); rc=$?
  n=$(echo "$out" | grep -c '^VIOLATION')
  echo "== $c: exit=$rc violations_printed=$n $(echo "$out" | grep 'tier=' | sed 's/.*cases, //' | cut -c1-120)"
  echo "$out" | grep -A1 '^VIOLATION' | grep 'kind=' | head -2 | cut -c1-300
done
