#!/usr/bin/env python3
# Rewrites the table of DESIGN.md section 11.2 from evidence/<id>.json (run after the final quick run of every check).
import json,glob,os,re
root=os.path.join(os.path.dirname(os.path.abspath(__file__)),'..')
thor={'C01':320,'C02':320,'C03':2400,'C04':16900,'C05':16600,'C06':6000,'C07':2400,'C08':640,'C09':600,'C10':2400,'C11':4000,'C12':1500,'C13':40000,'C14':600,'C15':30000,'C16':312,'C17':5040,'C18':544,'C19':160,'C20':200}
files={'C01':'c01.go','C02':'c01.go','C03':'c03.go','C04':'c04.go, c04b.go, c04c.go','C05':'c04.go, c04b.go','C06':'c06.go','C07':'c03.go','C08':'c08.go','C09':'c09.go','C10':'c09.go','C11':'c11.go','C12':'c12.go','C13':'c13.go','C14':'c14.go','C15':'c15.go','C16':'c16.go','C17':'c17*.go, internal/idxmodel','C18':'c18.go','C19':'c19.go','C20':'c20.go'}
rows=["| ID | check file | cases quick / thorough | quick wall | distinct non-trivial | cases attributed to listed findings | largest counters of the evidence file |","|---|---|---|---|---|---|---|"]
for f in sorted(glob.glob(os.path.join(root,'evidence','C*.json'))):
    e=json.load(open(f)); c=e['coverage']; o=c.get('observed',{}); pid=e['property_id']
    top=sorted(((v,k) for k,v in o.items() if isinstance(v,(int,float))),reverse=True)[:5]
    att=c.get('cases_attributed_to_listed_findings',{})
    att=sum(att.values()) if isinstance(att,dict) else 0
    rows.append(f"| {pid} | {files[pid]} | {c['evaluations']} / {thor[pid]} | {e['wall_s']:.0f} s | {c['distinct_nontrivial']} | {att} | "+", ".join(f"{k}={v}" for v,k in top)+" |")
p=os.path.join(root,'DESIGN.md'); s=open(p).read()
m=re.search(r"(### 11\.2 [^\n]*\n)(.*?)(\n### 11\.3 )",s,re.S)
head="All 20 properties are claimed; `not_applicable` is empty. Numbers of the final quick run at seed 1 on 16 cores (from `evidence/*.json`, written by the machinery); the thorough tier runs the same code with the larger counts.\n\n"
s=s[:m.start(2)]+head+"\n".join(rows)+"\n"+s[m.end(2):]
open(p,'w').write(s)
print("11.2 rewritten with",len(rows)-2,"rows")
