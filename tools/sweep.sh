#!/bin/bash
# usage: tools/sweep.sh <seed> [checks...]  - runs the quick tier of every check at one seed and prints one line per check
# (exit code, summary line, any VIOLATION / unattributed kind line). For the clean sweeps before committing evidence.
cd "$(dirname "$0")/.."
SEED=${1:?seed}; shift
CHECKS=${@:-C01 C02 C03 C04 C05 C06 C07 C08 C09 C10 C11 C12 C13 C14 C15 C16 C17 C18 C19 C20}
for c in $CHECKS; do
  out=$(VERIF_SEED=$SEED ./run.sh $c quick 2>&1); rc=$?
  echo "seed=$SEED $c rc=$rc $(echo "$out" | grep 'tier=' | sed 's/.*: //' | cut -c1-150)"
  echo "$out" | grep "^VIOLATION\|BROKEN\|vacuous\|BUILD FAILED" | head -5
  echo "$out" | grep -v "^KNOWN" | grep "kind=" | head -3 | cut -c1-300
done
