#!/bin/bash
# Ablation with a commit -> checks map (tools/ablate_map.txt): revert each "fix:" commit of /repo alone in a scratch worktree
# and record which of the named quick checks fire. usage: tools/ablate2.sh <outfile> [seed]
set -u
OUT=${1:?outfile}; SEED=${2:-1}
export GOFLAGS=-mod=mod GOPROXY=off GOSUMDB=off GOTOOLCHAIN=local VERIF_SEED=$SEED
W=/tmp/abl
rm -rf $W; mkdir -p $W
git -C /repo worktree prune
git -C /repo worktree add --detach $W/repo HEAD >/dev/null 2>&1 || exit 1
mkdir -p $W/verif && cp -r /verif/harness /verif/run.sh /verif/known_findings.jsonl $W/verif/
sed -i "s#=> /repo/lib#=> $W/repo/lib#" $W/verif/harness/go.mod
export VERIF_DIR=$W/verif
: > $OUT
while read sha checks; do
  [ -z "$sha" ] && continue
  subj=$(git -C /repo log --format=%s -1 $sha)
  git -C $W/repo reset -q --hard HEAD
  if ! git -C $W/repo revert --no-commit $sha >/dev/null 2>&1; then
    git -C $W/repo revert --abort >/dev/null 2>&1; git -C $W/repo reset -q --hard HEAD
    echo "$sha CONFLICT-ON-REVERT | $subj" >> $OUT; continue
  fi
  if ! (cd $W/repo/lib && go build ./... >/dev/null 2>&1); then echo "$sha DOES-NOT-BUILD | $subj" >> $OUT; continue; fi
  fired=""; silent=""
  for c in $checks; do
    (cd $W/verif && VERIF_MAXPRINT=3 VERIF_MEMLIMIT_MB=4000 timeout 1200 ./run.sh $c quick > $W/out.$c 2>&1); rc=$?
    if [ $rc -eq 1 ]; then fired="$fired $c($(grep -c '^VIOLATION' $W/out.$c):$(grep -m1 'kind=' $W/out.$c | sed 's/.*kind=\([^ ]*\).*/\1/'))"; elif [ $rc -ne 0 ]; then fired="$fired $c(rc=$rc)"; else silent="$silent $c"; fi
  done
  echo "$sha fired:[$fired ] silent:[$silent ] | $subj" >> $OUT
done < ${ABL_MAP:-/verif/tools/ablate_map.txt}
git -C /repo worktree remove --force $W/repo
rm -rf $W
echo DONE >> $OUT
