#!/usr/bin/env python3
# Prints one markdown row per property from evidence/<id>.json (quick tier): cases, distinct, attributed, wall, a few counters.
import json,glob,os
rows=[]
for f in sorted(glob.glob(os.path.join(os.path.dirname(__file__),'..','evidence','C*.json'))):
    e=json.load(open(f)); c=e['coverage']; o=c.get('observed',{})
    top=sorted(((v,k) for k,v in o.items() if isinstance(v,(int,float))),reverse=True)[:4]
    att=sum(c.get('cases_attributed_to_listed_findings',{}).values()) if isinstance(c.get('cases_attributed_to_listed_findings'),dict) else 0
    print(f"| {e['property_id']} | {e['tier']} seed {e['seed']} | {c['evaluations']} | {c['distinct_nontrivial']} | {c['inconclusive']} | {att} | {e['wall_s']:.0f} s | "+", ".join(f"{k}={v}" for v,k in top)+" |")
