#!/usr/bin/env python3
"""Regenerates /verif/MANIFEST.json from the table below (keeps the file valid at all times)."""
import json, os, subprocess
V = os.path.dirname(os.path.dirname(os.path.abspath(__file__)))

# tools/checks.json: id -> {category, text, note, technique, ref}; tools/not_claimed.json: id -> reason
CHECKS = {k: (v["category"], v["text"], v["note"], v["technique"], v["ref"]) for k, v in json.load(open(os.path.join(V, "tools", "checks.json"))).items()}
NOT_YET = json.load(open(os.path.join(V, "tools", "not_claimed.json")))
def main():
    props = [json.loads(l) for l in open(os.path.join(V, "properties.jsonl"))]
    hooks = subprocess.run(["git", "-C", "/repo", "log", "--format=%H %s"], capture_output=True, text=True).stdout.splitlines()
    hook_commits = [l.split()[0] for l in hooks if " verif hook " in " " + l.split(" ", 1)[1] or l.split(" ", 1)[1].startswith("verif hook")]
    checks = []
    na = []
    for p in props:
        i = p["id"]
        if i in CHECKS:
            cat, text, note, tech, ref = CHECKS[i]
            checks.append({
                "property_id": i,
                "quick_cmd": f"./run.sh {i} quick",
                "thorough_cmd": f"./run.sh {i} thorough",
                "evidence_file": f"/verif/evidence/{i}.json",
                "replay_cmd_template": f"./run.sh {i} quick --replay {{path}}",
                "engine": "vcheck",
                "level_claimed": {"category": cat, "text": text, "design_ref": "DESIGN.md section " + ref},
                "level_note": note,
                "technique": tech,
            })
        else:
            na.append({"property_id": i, "reason": NOT_YET.get(i, "check not built yet in this round of work (runtime monitoring applies; see DESIGN.md); no claim is made until the check exists")})
    m = {
        "version": 1,
        "setup_cmd": "./run.sh build",
        "hooks": {
            "guard": "verif (Go build tag)",
            "enable": "go build -tags verif (run.sh builds /verif/harness, which imports /repo/lib through a replace directive, so /repo's working tree is what is compiled)",
            "baseline_off_cmd": "cd /repo/lib && GOFLAGS=-mod=mod GOPROXY=off GOSUMDB=off GOTOOLCHAIN=local go test -vet=off -count=1 -timeout 25m ./...",
            "source_commits": hook_commits,
            "add_only": True,
        },
        "engines": [{"name": "vcheck", "path": "/verif/harness", "serves_properties": sorted(CHECKS), "kind_free_text": "Go harness: seeded workload generators + runtime monitors/oracles over the real engine, sharded child processes, race detector build for C19"}],
        "checks": checks,
        "not_applicable": na,
        "notes": "All checks: ./run.sh <ID> <tier>; VERIF_SEED selects the PRNG stream. Known findings: /verif/known_findings.jsonl.",
    }
    json.dump(m, open(os.path.join(V, "MANIFEST.json"), "w"), indent=1)
    print("MANIFEST.json:", len(checks), "checks,", len(na), "not claimed")
main()
