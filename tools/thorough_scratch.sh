#!/bin/bash
# Runs the thorough tier of the given checks against a scratch worktree of /repo's HEAD (so that /repo itself stays free
# for other work) and keeps the outputs under /tmp/thor_out. For exploration only: committed evidence comes from /verif against /repo.
# usage: tools/thorough_scratch.sh <seed> <check ids...>
set -u
SEED=${1:?seed}; shift
export GOFLAGS=-mod=mod GOPROXY=off GOSUMDB=off GOTOOLCHAIN=local VERIF_SEED=$SEED
W=/tmp/thor
rm -rf $W; mkdir -p $W /tmp/thor_out
git -C /repo worktree prune
git -C /repo worktree add --detach $W/repo HEAD >/dev/null 2>&1 || exit 1
mkdir -p $W/verif && cp -r /verif/harness /verif/run.sh /verif/known_findings.jsonl $W/verif/
sed -i "s#=> /repo/lib#=> $W/repo/lib#" $W/verif/harness/go.mod
export VERIF_DIR=$W/verif
cd $W/verif && ./run.sh build > /tmp/thor_out/build.log 2>&1
for c in "$@"; do
  echo "=== $c $(date +%H:%M)" >> /tmp/thor_out/summary.txt
  (cd $W/verif && VERIF_MAXPRINT=6 timeout 14000 ./run.sh $c thorough > /tmp/thor_out/out.$c.s$SEED 2>&1); rc=$?
  echo "rc=$rc" >> /tmp/thor_out/summary.txt
  grep -v "^KNOWN" /tmp/thor_out/out.$c.s$SEED | grep "NOTE\|group\|^VIOLATION\|kind=\|tier=\|BROKEN\|inconclusive" | head -30 | cut -c1-500 >> /tmp/thor_out/summary.txt
  mkdir -p /tmp/thor_out/replays_$c; cp -r $W/verif/replays/$c/. /tmp/thor_out/replays_$c/ 2>/dev/null
done
git -C /repo worktree remove --force $W/repo
rm -rf $W
echo ALLDONE >> /tmp/thor_out/summary.txt
